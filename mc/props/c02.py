"""C02 - assembler and disassembler are mutual inverses.

Direction 1 (every statement the disassembler emits assembles back to its bytes):
the full opcode slot set x every additional-opcode setting, with
  * ALL 256 values of every byte operand, displacement and jump offset,
  * all 65536 (d, n) pairs of LD (IX+d),n / LD (IY+d),n,
  * all 65536 values of the word operand for one representative of each word-operand
    decoder, a 24-value boundary alphabet for the others (thorough: all 65536 for all),
  * relative jumps at every address within reach of either end of the 64K space,
  * every instruction at 65533..65535 with wrapping enabled,
x base indicator (n,b,c,d,h,m and - for two-operand forms - all 36 two-letter pairs) x
{upper,lower} x {decimal,hex}; and DEFB/DEFM/DEFW/DEFS statements for all byte values,
byte pairs around quotes/backslashes, boundary words and sizes.
Direction 2 (assemble -> disassemble -> assemble is the identity on bytes): every
mnemonic form (from the reference decoder) x 40 operand spellings ($hex, %bin,
characters, escaped quotes, arithmetic, negative values, leading zeros, odd white
space) x {upper, lower, mixed case}.

Domain (fixed by a probe, see DESIGN.md): the base 'm' (negative) is generated only
where a signed operand is meaningful: non-zero immediates, displacements and
addresses; not for RST, IN A,(n), OUT (n),A.
"""
import itertools

from .. import core
from ..refs import z80ref
from .c07 import slots as c07_slots, OPCODE_SETS, Cfg, Ins, enabled_tags

PROPERTY = 'C02'
NEEDS_C = False

BASES1 = ('n', 'b', 'c', 'd', 'h', 'm')
BASES2 = tuple(a + b for a in 'nbcdhm' for b in 'nbcdhm')
WORDS = (0, 1, 9, 10, 34, 65, 92, 99, 100, 127, 128, 255, 256, 257, 999, 1000, 9999, 10000, 16383, 16384, 32767, 32768, 65534, 65535)
WORD_REPS = {(0x01,), (0xC3,), (0xCD,), (0x32,), (0x3A,), (0x22,), (0x2A,), (0xED, 0x43), (0xED, 0x4B), (0xDD, 0x21), (0xFD, 0x22), (0xDD, 0x2A),
             (0xC2,), (0xC4,)}
STYLES = ((False, False), (False, True), (True, False), (True, True))     # (asm_hex, asm_lower)


class DCfg(Cfg):
    def __init__(self, opcodes, wrap, hexa, lower):
        Cfg.__init__(self, opcodes, wrap, Ins)
        self.asm_hex = hexa
        self.asm_lower = lower


class World:
    def __init__(self):
        from skoolkit.disassembler import Disassembler
        from skoolkit.z80 import Assembler
        self.snap = [0] * 65536
        self.asm = Assembler()
        self.dis = {}
        self.Disassembler = Disassembler

    def d(self, opcodes, hexa, lower, wrap=1):
        key = (opcodes, hexa, lower, wrap)
        if key not in self.dis:
            self.dis[key] = self.Disassembler(self.snap, DCfg(opcodes, wrap, hexa, lower))
        return self.dis[key]

    def place(self, addr, code):
        for i, b in enumerate(code):
            self.snap[(addr + i) & 0xFFFF] = b

    def check1(self, opcodes, hexa, lower, addr, base, wrap=1):
        """Disassemble the statement at addr and assemble it back.  Returns None or detail."""
        ins = self.d(opcodes, hexa, lower, wrap).disassemble(addr, addr + 1, base)[0]
        back = self.asm.assemble(ins.operation, addr)
        if ins.variant:
            # a variant encoding of an instruction that has a canonical one: the statement is
            # emitted together with its byte list (@bytes), which is what reproduces the
            # original; the text itself must still assemble - to the canonical encoding of
            # the same instruction, of the same length
            if not back:
                return '{!r} at {} (variant of {}) does not assemble'.format(ins.operation, addr, list(ins.bytes))
            self.place(addr, tuple(back) + tuple(ins.bytes[len(back):]))
            again = self.d(opcodes, hexa, lower, wrap).disassemble(addr, addr + 1, base)[0]
            self.place(addr, tuple(ins.bytes) + (0, 0))
            if again.operation != ins.operation:
                return '{!r} (variant {}) assembles to {}, which is {!r}'.format(ins.operation, list(ins.bytes), list(back), again.operation)
            return None
        if list(back) != list(ins.bytes):
            return '{!r} at {} (base {}, hex={}, lower={}, Opcodes={!r}) was decoded from {} but assembles to {}'.format(
                ins.operation, addr, base, hexa, lower, opcodes, list(ins.bytes), list(back))
        return None


def operand_kinds(ins):
    """Which operand bytes the reference decode of a slot has: set of 'n','d','nn','e'."""
    k = set()
    op, a = ins.op, ins.a
    if op in ('jr', 'djnz'):
        k.add('e')
    if op in ('ld_rr_nn', 'ld_nn_a', 'ld_a_nn', 'ld_mm_rr', 'ld_rr_mm', 'jp', 'call'):
        k.add('nn')
    if op in ('out_n_a', 'in_a_n'):
        k.add('port')
    if op == 'alu' and a[1][0] == 'n':
        k.add('n')
    if op == 'ld8':
        if a[1][0] == 'n':
            k.add('n')
        if a[0][0] == 'idx' or a[1][0] == 'idx':
            k.add('d')
    if op in ('alu', 'incdec8') and any(isinstance(x, tuple) and x and x[0] == 'idx' for x in a):
        k.add('d')
    if op in ('rot', 'bit', 'resset') and any(isinstance(x, tuple) and x and x[0] == 'idx' for x in a):
        k.add('d')
    return k


def slot_list():
    seen = set()
    out = []
    for code in c07_slots():
        key = (code[0], code[1] if code[0] in (0xCB, 0xED, 0xDD, 0xFD) else None,
               code[3] if code[1] == 0xCB and code[0] in (0xDD, 0xFD) else None)
        if key not in seen:
            seen.add(key)
            out.append(code)
    return out


def opcode_settings(ins, tier):
    if not ins.undoc or ins.undoc in ('xyhl', 'sll', 'prefix', 'ednop'):
        return ('',) if tier == 'quick' else ('', 'ALL')
    return ('', 'ALL') if tier == 'quick' else OPCODE_SETS


def bases_for(kinds, value_zero, two):
    """Base indicators to apply, honouring the domain of 'm'."""
    allow_m = not value_zero and 'port' not in kinds
    if two:
        bs = BASES1 + BASES2
    else:
        bs = BASES1
    if not allow_m:
        bs = tuple(b for b in bs if 'm' not in b)
    return bs


def direction1(stats, shard, nshards, tier):
    w = World()
    quick = tier == 'quick'
    order = 0

    def run(code, addr, opcodes, bases, group, wrap=1):
        nonlocal order
        w.place(addr, code)
        for base in bases:
            for hexa, lower in STYLES:
                d = w.check1(opcodes, hexa, lower, addr, base, wrap)
                stats.evaluations += 1
                order += 1
                if d:
                    stats.violation('D1/{}/{}@{}/{}/{}{}/{}'.format(group, ''.join('%02X' % b for b in code), addr, base, 'H' if hexa else 'D',
                                                                    'l' if lower else 'u', opcodes or '-'),
                                    {'dir': 1, 'code': list(code), 'addr': addr, 'opcodes': opcodes, 'base': base, 'hex': hexa, 'lower': lower, 'wrap': wrap},
                                    d, tags={'dir': 1, 'group': group, 'base': base, 'b0': code[0], 'b1': code[1]}, order=order)

    slots = slot_list()
    for si, code0 in core.shard_iter(slots, shard, nshards):
        ref = z80ref.decode(list(code0) + [0] * 4, 0)
        kinds = operand_kinds(ref)
        ddcb = code0[0] in (0xDD, 0xFD) and code0[1] == 0xCB
        pl = 2 if (code0[0] in (0xDD, 0xFD, 0xED) or code0[0] == 0xCB) else 1       # offset of first operand byte
        if code0[0] == 0xCB:
            pl = 2
        stats.state((ref.op, tuple(sorted(kinds)), ref.undoc))
        for opcodes in opcode_settings(ref, tier):
            if not kinds:
                code = code0 if not ddcb else (code0[0], 0xCB, 0x05, code0[3])
                run(code, 0x8000, opcodes, ('n',), 'noarg')
                stats.counters['noarg'] += 1
            elif kinds == {'d'} or (ddcb and 'd' in kinds):
                for d in range(256):
                    code = list(code0)
                    code[2] = d
                    run(tuple(code), 0x8000, opcodes, bases_for(kinds, d == 0, False), 'd')
                stats.counters['disp_sweeps'] += 1
            elif kinds in ({'n'}, {'port'}):
                for n in range(256):
                    code = list(code0)
                    code[pl] = n
                    run(tuple(code), 0x8000, opcodes, bases_for(kinds, n == 0, False), 'n')
                stats.counters['byte_sweeps'] += 1
            elif kinds == {'n', 'd'}:
                # LD (IX+d),n
                boundary = (0, 1, 34, 92, 65, 127, 128, 129, 255, 94, 96, 32)
                for d, n in itertools.product(range(256), range(256)):
                    code = (code0[0], code0[1], d, n)
                    if d in boundary and n in boundary:
                        bs = bases_for(kinds, d == 0 or n == 0, True)
                    elif quick:
                        bs = ('n', 'dh', 'cb') if (d and n) else ('n', 'dh')
                        bs = bs + (('hm', 'mc') if d and n else ())
                    else:
                        bs = bases_for(kinds, d == 0 or n == 0, True)
                    run(code, 0x8000, opcodes, bs, 'dn')
                stats.counters['dn_sweeps'] += 1
            elif kinds == {'nn'}:
                rep = tuple(code0[:pl]) in WORD_REPS
                values = range(65536) if (rep or not quick) else WORDS
                for v in values:
                    code = list(code0)
                    code[pl] = v & 0xFF
                    code[pl + 1] = v >> 8
                    run(tuple(code[:pl + 2]) + (0,) * (2 - pl), 0x8000, opcodes, bases_for(kinds, v == 0, False), 'nn')
                stats.counters['word_sweeps_full' if (rep or not quick) else 'word_sweeps_boundary'] += 1
            elif kinds == {'e'}:
                near = list(range(0, 131)) + list(range(65536 - 131, 65536)) + [0x4000, 0x7FFE, 0x8000]
                if quick:
                    near = [0, 1, 2, 125, 126, 127, 128, 129, 130, 0x8000, 65405, 65406, 65407, 65408, 65409, 65410, 65533, 65534, 65535]
                for addr in near:
                    for e in range(256):
                        code = (code0[0], e, 0, 0)
                        tgt = addr + 2 + (e - 256 if e > 127 else e)
                        run(code[:2], addr, opcodes, bases_for(kinds, tgt == 0, False), 'e')
                stats.counters['jump_sweeps'] += 1
            else:
                raise AssertionError('unclassified operand kinds {} for {}'.format(kinds, ref.text))
        # 64K edge with wrapping enabled and disabled
        code = code0 if code0[0] in (0xCB, 0xED, 0xDD, 0xFD) else (code0[0], 0x12, 0x34, 0x56)
        for addr in (65533, 65534, 65535):
            for wrap in (0, 1):
                run(code, addr, 'ALL', ('n', 'h'), 'edge', wrap)
            w.place(addr, (0, 0, 0, 0))
        stats.counters['edge'] += 1
        stats.nontriv(('D1', code0[0], code0[1], code0[3]))
        if si % 400 == 0:
            stats.sample({'direction': 1, 'slot': '%02X%02X..%02X' % (code0[0], code0[1], code0[3]), 'text': ref.text, 'operands': sorted(kinds)})


def data_statements(stats, shard, nshards, tier):
    """DEFB/DEFM/DEFW/DEFS statements the disassembler emits (component API ranges)."""
    w = World()
    order = 0
    cases = []
    for v in range(256):
        cases.append(('defb1', (v,)))
    for v, x in itertools.product(range(256), (0x41, 0x22, 0x5C, 0x00, 0xC1, 0x7F)):
        cases.append(('defb2', (v, x)))
        cases.append(('defb2', (x, v)))
    for v in WORDS:
        cases.append(('defw', (v & 0xFF, v >> 8)))
        cases.append(('defw3', (v & 0xFF, v >> 8, 0x41)))
    for n in (1, 2, 3, 10, 255, 256, 257, 1000):
        for v in (0, 1, 0x41, 0x22, 0xFF):
            cases.append(('defs', (v,) * n))
    for ci, (kind, data) in core.shard_iter(cases, shard, nshards):
        addr = 0x9000
        w.place(addr, data)
        for hexa, lower in STYLES:
            d = w.d('', hexa, lower)
            for base in BASES1:
                if 'm' in base and 0 in data:
                    continue
                if kind.startswith('defb'):
                    outs = [d.defb_range(addr, addr + len(data), ((0, base),)), d.defm_range(addr, addr + len(data), ((0, base),)),
                            d.defb_range(addr, addr + len(data), tuple((1, base) for _ in data))]
                elif kind.startswith('defw'):
                    outs = [d.defw_range(addr, addr + len(data), ((0, base),)), d.defw_range(addr, addr + len(data), ((len(data), base),))]
                else:
                    # the size of a DEFS is not a signed quantity: 'm' applies to the value only
                    sb = 'n' if base == 'm' else base
                    outs = [d.defs_range(addr, addr + len(data), ((0, sb),)), d.defs_range(addr, addr + len(data), ((len(data), sb), (1, base)))]
                for instrs in outs:
                    for ins in instrs:
                        back = w.asm.assemble(ins.operation, ins.address)
                        stats.evaluations += 1
                        order += 1
                        if list(back) != list(ins.bytes):
                            stats.violation('D1/data/{}/{}/{}/{}{}'.format(kind, '-'.join('%02X' % b for b in data[:4]), base, int(hexa), int(lower)),
                                            {'dir': 'data', 'kind': kind, 'data': list(data), 'base': base, 'hex': hexa, 'lower': lower},
                                            '{!r} was produced for {} but assembles to {}'.format(ins.operation, list(ins.bytes), list(back)),
                                            tags={'dir': 1, 'group': 'data', 'kind': kind, 'base': base}, order=order)
        stats.counters['data_' + kind] += 1


SPELLINGS = ('0', '1', '7', '255', '256', '65535', '$0A', '$ff', '$1234', '%101', '%11111111', '"a"', '"A"', '"\\""', '"\\\\"', '" "', '1+1', '(2*3)',
             '10/3', '-1', '0-1', '-128', '007', ' 5', '5 ', '\t5', '2*(3+4)', '"a"+1', '$10*2', '%10+%01', '300-45', '65536-1', '1 + 1', '255-256+1',
             '"a"+128', '(5)', '((5))', '9', '127', '128')


def direction2(stats, shard, nshards, tier):
    import re
    w = World()
    order = 0
    slots = slot_list()
    num = re.compile(r'(?<![A-Za-z$%"])\d+')
    for si, code0 in core.shard_iter(slots, shard, nshards):
        code = code0 if code0[0] in (0xCB, 0xED, 0xDD, 0xFD) else (code0[0], 0x07, 0x09, 0)
        if code0[0] in (0xDD, 0xFD) and code0[1] == 0xCB:
            code = (code0[0], 0xCB, 0x07, code0[3])
        elif code0[0] in (0xED, 0xDD, 0xFD):
            code = (code0[0], code0[1], 0x07, 0x09)
        w.place(0x8000, tuple(code) + (0,) * 4)
        ref = z80ref.decode(w.snap, 0x8000)
        if ref.text.startswith('DEFB'):
            continue
        template = ref.text
        positions = [m for m in num.finditer(template)]
        # operands that are numbers in the canonical text (not bit numbers of BIT/RES/SET, not RST/IM arguments)
        if ref.op in ('bit', 'resset'):
            positions = positions[1:]
        if ref.op in ('rst', 'im'):
            positions = []
        variants = [template]
        if positions:
            variants = []
            for sp in SPELLINGS:
                t = template
                for m in reversed(positions):
                    t = t[:m.start()] + sp + t[m.end():]
                variants.append(t)
        for text in variants:
            for case in range(3):
                if case == 0:
                    t = text
                elif case == 1:
                    t = _lower_outside_quotes(text)
                else:
                    t = _mixed(text)
                b1 = w.asm.assemble(t, 0x8000)
                stats.evaluations += 1
                order += 1
                if not b1:
                    stats.counters['d2_rejected'] += 1
                    continue
                stats.counters['d2_accepted'] += 1
                w.place(0x8000, tuple(b1) + (0,) * 4)
                ins = w.d('ALL', False, False).disassemble(0x8000, 0x8001, 'n')[0]
                b2 = w.asm.assemble(ins.operation, 0x8000)
                if list(b2) != list(b1) and list(ins.bytes) == list(b1):
                    stats.violation('D2/{}'.format(t), {'dir': 2, 'text': t}, '{!r} assembles to {}, which disassembles to {!r}, which assembles to {}'.format(
                        t, list(b1), ins.operation, list(b2)), tags={'dir': 2, 'op': ref.op}, order=10**9 + order)
                elif list(ins.bytes) != list(b1):
                    # the assembler produced a sequence the disassembler splits differently: compare over the whole sequence
                    total = []
                    a = 0x8000
                    while a < 0x8000 + len(b1):
                        i2 = w.d('ALL', False, False).disassemble(a, a + 1, 'n')[0]
                        total.extend(w.asm.assemble(i2.operation, a))
                        a += max(1, len(i2.bytes))
                    if total[:len(b1)] != list(b1):
                        stats.violation('D2/{}'.format(t), {'dir': 2, 'text': t}, '{!r} assembles to {} but its disassembly re-assembles to {}'.format(
                            t, list(b1), total), tags={'dir': 2, 'op': ref.op}, order=10**9 + order)
        stats.nontriv(('D2', code0[0], code0[1], code0[3]))
        if si % 500 == 0:
            stats.sample({'direction': 2, 'template': template, 'spellings': len(variants), 'cases': 3})


def _lower_outside_quotes(text):
    out = []
    q = False
    i = 0
    while i < len(text):
        c = text[i]
        if c == '\\' and q and i + 1 < len(text):
            out.append(text[i:i + 2])
            i += 2
            continue
        if c == '"':
            q = not q
        out.append(c if q else c.lower())
        i += 1
    return ''.join(out)


def _mixed(text):
    out = []
    q = False
    flip = False
    i = 0
    while i < len(text):
        c = text[i]
        if c == '\\' and q and i + 1 < len(text):
            out.append(text[i:i + 2])
            i += 2
            continue
        if c == '"':
            q = not q
        if q or not c.isalpha():
            out.append(c)
        else:
            out.append(c.lower() if flip else c.upper())
            flip = not flip
        i += 1
    return ''.join(out)


def _shard(shard, nshards, tier, seed):
    stats = core.Stats(PROPERTY)
    direction1(stats, shard, nshards, tier)
    data_statements(stats, shard, nshards, tier)
    direction2(stats, shard, nshards, tier)
    return stats


def run(tier, seed):
    stats = core.run_shards(_shard, tier, seed, prop=PROPERTY)
    stats.transitions = stats.evaluations * 2
    stats.traces = stats.evaluations
    meta = dict(
        rule='D1: every opcode slot x additional-opcode settings; all 256 values of every byte operand / displacement / jump offset; all 65536 (d,n) of '
             'LD (IX/IY+d),n; all 65536 words for {} and a 24-value boundary alphabet otherwise; relative jumps at {} addresses near both ends of '
             'memory; 64K edge with wrap on/off; x bases (6 single, 36 pairs for two-operand forms; m only where a signed operand is meaningful) x '
             '{{upper,lower}} x {{dec,hex}}; DEFB/DEFM/DEFW/DEFS ranges. D2: every mnemonic form x 40 operand spellings x 3 case variants: '
             'assemble -> disassemble -> assemble is the identity. states = distinct (op class, operand kinds, undocumented family)'.format(
                 'one representative of each word-operand decoder' if tier == 'quick' else 'every word-operand instruction',
                 19 if tier == 'quick' else 265),
        exhaustive=True,
        bound='byte operands complete; word operands complete for {}'.format('14 representative slots' if tier == 'quick' else 'all slots'),
        assumptions=["base 'm' only for non-zero immediates, displacements and addresses, not for RST / IN A,(n) / OUT (n),A (negative operand not meaningful: out of the statement's domain)",
                     'D2 requires consistency only for texts the assembler accepts (rejections are counted, not judged)'],
        required_guards=['noarg', 'disp_sweeps', 'byte_sweeps', 'dn_sweeps', 'word_sweeps_full', 'jump_sweeps', 'edge', 'data_defb1', 'data_defw',
                         'data_defs', 'd2_accepted', 'd2_rejected'],
    )
    return stats, meta


def replay(case):
    w = World()
    if case['dir'] == 1:
        w.place(case['addr'], tuple(case['code']))
        d = w.check1(case['opcodes'], case['hex'], case['lower'], case['addr'], case['base'], case.get('wrap', 1))
        return [d] if d else []
    st = core.Stats()
    if case['dir'] == 'data':
        addr = 0x9000
        data = tuple(case['data'])
        w.place(addr, data)
        d = w.d('', case['hex'], case['lower'])
        base = case['base']
        kind = case['kind']
        if kind.startswith('defb'):
            outs = [d.defb_range(addr, addr + len(data), ((0, base),)), d.defm_range(addr, addr + len(data), ((0, base),)),
                    d.defb_range(addr, addr + len(data), tuple((1, base) for _ in data))]
        elif kind.startswith('defw'):
            outs = [d.defw_range(addr, addr + len(data), ((0, base),)), d.defw_range(addr, addr + len(data), ((len(data), base),))]
        else:
            sb = 'n' if base == 'm' else base
            outs = [d.defs_range(addr, addr + len(data), ((0, sb),)), d.defs_range(addr, addr + len(data), ((len(data), sb), (1, base)))]
        res = []
        for instrs in outs:
            for ins in instrs:
                back = w.asm.assemble(ins.operation, ins.address)
                if list(back) != list(ins.bytes):
                    res.append('{!r} was produced for {} but assembles to {}'.format(ins.operation, list(ins.bytes), list(back)))
        return res
    t = case['text']
    b1 = w.asm.assemble(t, 0x8000)
    if not b1:
        return []
    w.place(0x8000, tuple(b1) + (0,) * 4)
    total = []
    a = 0x8000
    while a < 0x8000 + len(b1):
        i2 = w.d('ALL', False, False).disassemble(a, a + 1, 'n')[0]
        total.extend(w.asm.assemble(i2.operation, a))
        a += max(1, len(i2.bytes))
    if total[:len(b1)] != list(b1):
        return ['{!r} assembles to {} but its disassembly re-assembles to {}'.format(t, list(b1), total)]
    return []
