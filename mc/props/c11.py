"""C11 - tape files round-trip and their pulse trains encode exactly the block bytes.

Bounded-exhaustive enumeration (no sampling).  The reference is mc/refs/tapefmt.py: TAP / TZX /
PZX writers written from the format descriptions plus a pulse-level expander that computes from
the block parameters the exact list of level toggles the tape specifies.

Sub-spaces (each enumerated completely, simplest first; Q = quick bound, T = thorough bound):

  roundtrip  write_tap / write_pzx -> parse_tap / parse_pzx for every list of <= 2 (T: 3) blocks
             over the data alphabet (+ long blocks), byte-compared with the reference writers
  equiv      the same bytes as TAP, TZX 0x10, TZX 0x11 (ROM timings), PZX (skoolkit's writer and
             the reference writer) -> identical edges / data-block ranges (PZX: modulo tail pulses)
  flags      every flag byte 0..255 as a standard-speed block (TAP, TZX 0x10, write_pzx)
  params     one block of each signal kind with its parameters swept over the design alphabets
             (complete products, or all deviations <= d from the ROM defaults for TZX 0x11)
  seq        every sequence of <= 2 (T: 3) items over a catalogue covering every block kind the
             parsers know x every --tape-start/--tape-stop/--tape-skip setting x polarity x
             first-edge (x 48K/128K where a conditional stop block is on the tape)
  tapinfo    tapinfo.main output for every catalogue item and pair x start/stop/skip
  analysis   `tapinfo -a` and `tap2sna --tape-analysis` (tool-level pass over the seam): time and
             EAR level of every tone / pulse / data / tail / pause line
  bin2tap    bin2tap.main -> .tap and .pzx of the same binary parse to the same blocks / edges
  loops      TZX loop repetition count in {1,2,255,256,257,511,512,65535} (both sides of every byte
             boundary of the 16-bit field) x 3 tiny bodies x {nothing, a pulse} after the loop, in the
             signal (all start/stop/skip; 65535: <= 1 non-default option in Q), tapinfo and analysis
             (65535: default selection only) sub-spaces

Seam: tap2sna._get_tape_blocks (the conversion tap2sna itself uses) -> tape.get_edges.
"""
import itertools
import os
import re

from .. import core, tools
from ..refs import tapefmt as tf

PROPERTY = 'C11'
NEEDS_C = False

MIXES = (0xA5, 0xC3, 0x96)          # seed rotates the 'mixed bits' data byte (all >= 128, see assumptions)
WIDTHS = (0, 1, 855, 1710, 65535)
PILOTS = (0, 1, 2, 3223, 8063)
PAUSES = (0, 1, 1000)
FIRST_EDGES = (0, 1000)

ASSUMPTIONS = [
    'mc/refs/tapefmt.py (writers + expander written from the TZX 1.20 / PZX 1.0 descriptions and the ROM SAVE timings) is the oracle',
    'TZX playback is edge based, as documented in the tap2sna man page (EAR reading = parity of the pulse index): a pause is '
    'silence that keeps the level, block 0x2B and the absolute sample polarity of 0x15 are not modelled (a recording that starts '
    'high begins with a zero-length pulse); PZX levels are modelled exactly (initial level of PULS/DATA/PAUS)',
    'TZX control-flow blocks (0x23 jump, 0x26 call, 0x27 return, 0x28 select) are only required to be skipped with the right '
    'length (tap2sna does not claim to execute them); jump offset +1 and empty/short call lists are generated',
    'TZX loops are generated only well formed (0x24 .. 0x25, repetitions >= 1, signal blocks inside); start/stop/skip settings '
    'that select part of a loop are excluded; loop start/end make a catalogue item of 3 blocks',
    "'stop the tape' commands (TZX 0x20 with 0 ms, 0x2A, PZX STOP) end the tape only when no --tape-stop is given (changelog 9.x)",
    'pauses after the last pulse are not part of the signal (the level before the first edge is the opposite of the first '
    "pulse's); the trailing edge of a tail pulse that ends the tape is not generated; in a PZX tape (level based format) the "
    'toggles at the very last instant are not compared, except that the end of the last pulse of non-zero length (unless it is a '
    'tail pulse) must be an edge',
    'used bits 1..8 only; TZX 0x15 with at least one sample byte and >= 1 T-state per sample; PZX DATA with 0 bits only with tail 0; '
    'TZX 0x10/TAP blocks without a flag byte (length 0) are excluded from the signal spaces (pilot length undefined)',
    'deprecated TZX kinds 0x16, 0x17, 0x40 and unknown TZX ids are not generated; write_pzx is only given non-empty blocks '
    '(bin2tap never produces an empty one)',
    'PZX (skoolkit writer) vs TAP: same pulses except the 945 T tail pulse pzx.txt prescribes after each data block',
    "tapinfo: the 'Type:' classification line of data blocks and the descriptive text of 0x33 entries are not compared",
    'data blocks whose bit encodings contain zero-length pulses (sample-like data) have no well defined first edge: their range '
    'must only take in every level change before the end of the block; where zero-length pulses of a following block prolong or '
    "cancel the trailing edge of a block's last pulse the range end is the edge that really terminates it (or one edge earlier)",
    "tapinfo -a / --tape-analysis: 'Polarity adjustment' lines are bookkeeping and are not compared (the EAR column of the tone / "
    'pulse / data / tail / pause lines is)',
    'a crash (uncaught exception) of the parsers / get_edges on a generated tape is reported as a violation (clause crash)',
]


# =========================================================================== alphabets / catalogues
def data_strings(mix, lengths=(0, 1, 2)):
    out = []
    for n in lengths:
        out.extend(list(p) for p in itertools.product((0x00, 0xFF, mix), repeat=n))
    return out


def t11(**kw):
    b = {'k': 't11', 'pilot': 2168, 'sync1': 667, 'sync2': 735, 'zero': 855, 'one': 1710, 'npilot': 2, 'used': 8,
         'pause': 1000, 'data': [0xFF]}
    b.update(kw)
    return b


def t14(**kw):
    b = {'k': 't14', 'zero': 855, 'one': 1710, 'used': 8, 'pause': 1000, 'data': [0xFF]}
    b.update(kw)
    return b


def puls(*pulses):
    return {'k': 'PULS', 'pulses': [list(p) + [0] * (3 - len(p)) for p in pulses]}


def pdata(**kw):
    b = {'k': 'DATA', 'level': 1, 'tail': 945, 's0': [855, 855], 's1': [1710, 1710], 'used': 8, 'data': [0xFF]}
    b.update(kw)
    for f in ('s0', 's1', 'data'):
        b[f] = list(b[f])
    return b


def paus(level, duration):
    return {'k': 'PAUS', 'level': level, 'duration': duration}


PZXT = {'k': 'PZXT', 'major': 1, 'minor': 0, 'strings': [], 'term': 0}

TZX_INFO = [
    {'k': 't21', 'text': 'ab'}, {'k': 't22'}, {'k': 't23', 'offset': 1}, {'k': 't26', 'offsets': []},
    {'k': 't26', 'offsets': [1, 2]}, {'k': 't27'}, {'k': 't28', 'options': [[1, 'ab'], [2, 'c']]}, {'k': 't2A'},
    {'k': 't2B', 'level': 1}, {'k': 't30', 'text': 'ab'}, {'k': 't31', 'time': 1, 'text': 'abc'},
    {'k': 't32', 'strings': [[0, 'ab'], [255, 'c']]}, {'k': 't33', 'hw': [[0, 0, 0], [1, 2, 3]]}, {'k': 't34'},
    {'k': 't35', 'ident': 'Ident', 'data': [65, 66]}, {'k': 't5A'},
]
TZX_ERR = [{'k': 't18', 'pause': 1, 'rate': 44100, 'ctype': 1, 'npulses': 2, 'data': [1, 2]}, {'k': 't19', 'pause': 1}]


def tzx_catalogue(mix, reduced=False):
    """Items (each a list of blocks: one block, or loop start + body + loop end)."""
    sig = [
        {'k': 't10', 'pause': 1000, 'data': [0x00, mix]},                 # 8063 pilot pulses
        {'k': 't10', 'pause': 0, 'data': [0xFF]},
        t11(pilot=1000, sync1=1, sync2=65535, npilot=2, used=3, pause=1, data=[mix, 0xFF]),
        t11(sync1=0, sync2=0, zero=0, one=855, npilot=0, pause=0, data=[mix]),     # zero-length pulses everywhere
        t11(one=0, npilot=1, used=5, pause=1, data=[mix, 0x00]),
        t11(npilot=3, pause=1, data=[]),                                   # pilot + sync only
        {'k': 't12', 'width': 855, 'count': 2}, {'k': 't12', 'width': 0, 'count': 3},
        {'k': 't12', 'width': 1, 'count': 1}, {'k': 't12', 'width': 855, 'count': 0},
        {'k': 't13', 'pulses': [667, 735]}, {'k': 't13', 'pulses': [0]}, {'k': 't13', 'pulses': []},
        t14(data=[0xFF, 0x00]), t14(zero=1, one=65535, used=1, pause=0, data=[mix]),
        t14(zero=0, one=0, pause=1, data=[mix]), t14(pause=1, data=[]),
        {'k': 't15', 'tps': 79, 'pause': 0, 'used': 8, 'data': [mix]},
        {'k': 't15', 'tps': 79, 'pause': 1, 'used': 3, 'data': [0xFF, 0x00]},
        {'k': 't15', 'tps': 1, 'pause': 1, 'used': 8, 'data': [0x00]},
        {'k': 't20', 'pause': 0}, {'k': 't20', 'pause': 1}, {'k': 't20', 'pause': 1000},
    ]
    loops = [
        [{'k': 't24', 'n': 1}, {'k': 't12', 'width': 855, 'count': 2}, {'k': 't25'}],
        [{'k': 't24', 'n': 2}, t11(pilot=1000, sync1=1, sync2=65535, npilot=2, used=3, pause=1, data=[mix, 0xFF]), {'k': 't25'}],
        [{'k': 't24', 'n': 2}, {'k': 't13', 'pulses': [667, 735]}, {'k': 't25'}],
    ]
    if reduced:
        keep = (1, 2, 3, 4, 6, 7, 10, 13, 14, 17, 18, 20, 21)
        sig = [sig[i] for i in keep]
        info = [TZX_INFO[i] for i in (0, 4, 6, 7, 11)]
        return [[b] for b in sig + info + TZX_ERR[:1]] + loops[1:2]
    return [[b] for b in sig + TZX_INFO + TZX_ERR] + loops


def pzx_catalogue(mix, reduced=False):
    items = [
        puls((3223, 2168), (1, 667), (1, 735)), puls((2, 855)), puls((1, 0), (1, 855)), puls((2, 0)),
        puls((3, 0), (1, 5)), puls((1, 0)), puls((1, 855), (3, 0), (1, 855)), puls((1, 0x8000)), puls((2, 0x12345)),
        puls((1, 855, 3)), puls(),
        pdata(data=[mix]), pdata(level=0, data=[mix]), pdata(tail=0, data=[mix]), pdata(used=3, data=[0xFF, mix]),
        pdata(s0=[855], s1=[1710], data=[mix]), pdata(s0=[855], s1=[1710], tail=0, level=0, data=[mix]),
        pdata(s0=[80, 0], s1=[0, 80], tail=0, data=[mix]), pdata(s0=[80, 0], s1=[0, 80], data=[mix]),
        pdata(s0=[0], s1=[855], used=1, data=[0x00]), pdata(s0=[0], s1=[855], used=1, tail=0, data=[0x00]),
        pdata(s0=[], s1=[855, 855], data=[mix]), pdata(s0=[], s1=[], data=[mix]), pdata(tail=0, data=[]),
        pdata(s0=[0, 855], s1=[855, 0, 855], used=5, data=[mix]),
        paus(0, 3500000), paus(1, 1), paus(0, 0), paus(1, 0),
        {'k': 'BRWS', 'text': 'ab'}, {'k': 'STOP', 'flags': 0}, {'k': 'STOP', 'flags': 1},
        {'k': 'UNKN', 'tag': 'XXXX', 'body': [1, 2, 3]}, {'k': 'UNKN', 'tag': 'abcd', 'body': []},
        {'k': 'PZXT', 'major': 1, 'minor': 0, 'strings': ['ab', 'Publisher', 'c'], 'term': 1},
    ]
    std = [puls((8063, 2168), (1, 667), (1, 735)), pdata(data=[0x00, mix])]
    if reduced:
        keep = (1, 2, 4, 6, 8, 11, 12, 13, 14, 16, 17, 18, 19, 24, 25, 26, 29, 31, 32)
        return [[items[i]] for i in keep]
    return [[b] for b in items] + [std]


LOOP_REPS = (1, 2, 255, 256, 257, 511, 512, 65535)    # both sides of every byte boundary of the 16-bit count
LOOP_HEAVY = 512                                        # above this many repetitions the option nesting is capped


def loop_tapes():
    """TZX loops: repetition count x tiny body x what follows the loop.  The bodies are one
    short pulse (odd number of pulses per repetition: the level after the loop depends on the
    parity of the count), a two-pulse tone, and a pulse followed by a 1 ms pause."""
    bodies = ([{'k': 't13', 'pulses': [855]}], [{'k': 't12', 'width': 667, 'count': 2}],
              [{'k': 't13', 'pulses': [735]}, {'k': 't20', 'pause': 1}])
    afters = ([], [{'k': 't12', 'width': 1710, 'count': 1}])
    for reps in LOOP_REPS:
        for body in bodies:
            for after in afters:
                yield [{'k': 't24', 'n': reps}] + [dict(b) for b in body] + [{'k': 't25'}] + [dict(b) for b in after]


def max_loop_reps(blocks):
    return max([b['n'] for b in blocks if b['k'] == 't24'] or [0])


def select_cfgs(n):
    """Every (start, stop, skip) for n <= 3 file blocks (all subsets as skip); for longer
    files the skip sets are the contiguous ranges.  Default first, then by number of
    non-default options."""
    if n <= 3:
        skips = [c for r in range(n + 1) for c in itertools.combinations(range(1, n + 1), r)]
    else:
        skips = [()] + [tuple(range(a, b + 1)) for a in range(1, n + 1) for b in range(a, n + 1)]
    cfgs = [(start, stop, skip) for start in range(1, n + 2) for stop in range(0, n + 2) for skip in skips]
    cfgs.sort(key=lambda c: ((c[0] != 1) + (c[1] != 0) + (c[2] != ()), c[0], c[1], len(c[2]), c[2]))
    return cfgs


# =========================================================================== skoolkit seam
def sk_play(fmt, data, start=1, stop=0, skip=(), is48=True, polarity=0, first_edge=0):
    """The path tap2sna takes from a tape file to the edge list of a simulated LOAD."""
    from skoolkit import tap2sna, tape
    try:
        blocks = tap2sna._get_tape_blocks([('t.' + fmt, data)], True, start, stop, skip, is48)
    except tap2sna.TapeError as e:
        return 'error', str(e.args[0])
    except Exception as e:          # a crash of the code under test is a verdict, not a harness failure
        return 'crash', 'parsing raised {}: {}'.format(type(e).__name__, e)
    blocks = [b for b in blocks if b.timings]
    for b in blocks:
        b.keys = None
    try:
        return tape.get_edges(blocks, first_edge, polarity)
    except Exception as e:
        return 'crash', 'get_edges raised {}: {}'.format(type(e).__name__, e)


class Ref:
    """Reference expansion of one (tape, selection, polarity, first edge)."""
    __slots__ = ('sig', 'error', 'final', 't_end', 'stripped', 'at_end', 'levels', 'feat')

    def __init__(self, fmt, blocks, start, stop, skip, is48, polarity, first_edge, honour_stops=True):
        self.error = None
        self.levels = None
        try:
            self.sig = sig = tf.expand(fmt, blocks, start, stop, skip, is48, polarity, first_edge, honour_stops)
        except tf.Unsupported as e:
            self.error = str(e)
            self.sig = None
            self.feat = ''
            return
        self.final = tf.final_edges(sig)
        self.t_end = t_end = sig.t_end
        n = len(self.final)
        while n > 1 and self.final[n - 1] >= t_end:
            n -= 1
        self.stripped = self.final[:n]
        self.at_end = len(self.final) - n
        self.feat = ','.join(sorted(sig.features))

    def level_function(self):
        if self.levels is None:
            self.levels = tf.level_function(self.sig.edges, self.t_end)
        return self.levels


def _tail(lst, n=10):
    return ('...' if len(lst) > n else '') + str(list(lst[-n:]))


def compare_signal(fmt, ref, res):
    """-> list of (clause, detail).  res = sk_play(...)."""
    out = []
    if res[0] == 'crash':
        return [('crash', res[1])]
    if ref.error:
        if res[0] != 'error':
            out.append(('unsupported', 'block kind {} is selected but no error was raised'.format(ref.error)))
        return out
    if res[0] == 'error':
        return [('error', 'unexpected error: {}'.format(res[1]))]
    edges, dbs = res
    edges = list(edges)
    sig = ref.sig
    t_end = ref.t_end
    if edges != sorted(edges):
        i = next(i for i in range(len(edges) - 1) if edges[i] > edges[i + 1])
        out.append(('monotone', 'edge {} at {} is followed by an earlier edge at {}'.format(i, edges[i], edges[i + 1])))
    if not edges or (sig.exact and edges[0] != sig.edges[0]):
        out.append(('first_edge', 'first edge {} expected {}'.format(edges[:1], sig.edges[0])))
        return out
    if edges[-1] > t_end:
        out.append(('after_end', 'edge at {} after the end of the last pulse ({})'.format(edges[-1], t_end)))
    same_list = edges == ref.final
    wave_ok = True
    if not same_list:
        if sig.exact:
            if fmt == 'pzx':
                n = len(edges)
                while n > 1 and edges[n - 1] >= t_end:
                    n -= 1
                if edges[:n] != ref.stripped:
                    out.append(('pulses', 'edges {} expected {}'.format(_tail(edges[:n]), _tail(ref.stripped))))
                elif sig.last_pulse == 'pulse' and len(edges) == n:
                    out.append(('pulses', 'no edge at {} where the last pulse ends'.format(t_end)))
            else:
                out.append(('pulses', 'edges {} expected {}'.format(_tail(edges), _tail(ref.final))))
        elif fmt != 'pzx' and len(edges) % 2 != len(ref.final) % 2:
            out.append(('pulses', 'final level: {} edges, expected parity of {}'.format(len(edges), len(ref.final))))
        got = tf.level_function(edges, t_end)
        want = ref.level_function()
        wave_ok = got == want
        if got != want:
            i = next((i for i, (a, b) in enumerate(zip(got, want)) if a != b), min(len(got), len(want)))
            out.append(('waveform', 'level runs differ from run {}: {} expected {}'.format(i, got[i:i + 4], want[i:i + 4])))
    # ---- data blocks
    last = len(edges) - 1
    real = [db for db in dbs if db.data]
    prev_end = 0
    for db in dbs:
        if not (0 <= db.start <= db.end <= last):
            out.append(('datablock', 'range {}-{} outside 0..{}'.format(db.start, db.end, last)))
            return out
        if db.start < prev_end:
            out.append(('datablock', 'range {}-{} starts before the previous block ends ({})'.format(db.start, db.end, prev_end)))
        prev_end = db.end
    if [bytes(db.data) for db in real] != [d['data'] for d in sig.datablocks]:
        out.append(('datablock', 'data blocks {} expected {}'.format([list(db.data) for db in real], [list(d['data']) for d in sig.datablocks])))
        return out
    dropped = sig.tail_last

    def prolonged(t, t_last):
        # a following sample-like block that starts with a zero-length pulse prolongs this
        # block's last pulse: its trailing edge is then the next level change of the signal
        if sig.exact or not wave_ok:
            return False
        acc = 0
        for level, width in ref.level_function():
            acc += width
            if acc > t_last:
                break
        return t == acc

    for i, (db, d) in enumerate(zip(real, sig.datablocks)):
        is_last = i == len(real) - 1
        tail_gone = dropped and is_last
        t_last = d['t_bits'] if tail_gone else d['t_last']
        if d['fast']:
            npulses = d['npulses'] - (1 if tail_gone else 0)
            end_ok = edges[db.end] == t_last or (npulses and prolonged(edges[db.end], t_last))
            if db.start % 2 != d['ear'] or (npulses and edges[db.start] != d['t_lead']):
                out.append(('datablock', 'block {}: start index {} (time {}, level {}) expected time {} level {}'.format(
                    i, db.start, edges[db.start], db.start % 2, d['t_lead'], d['ear'])))
            elif (not sig.exact and npulses and wave_ok and db.end - db.start == npulses - 1 and edges[db.end] <= t_last
                  and (db.end == last or edges[db.end + 1] > t_last)
                  and (sig.edges.count(t_last) % 2 == 0 or (d['tail'] and t_last == t_end))):
                # zero-length pulses that follow the block cancel the trailing edge of its last
                # pulse (the signal has no level change there), or the tape ends at the end of the
                # tail pulse: the range ends one edge earlier
                pass
            elif not end_ok or db.end - db.start != npulses:
                out.append(('datablock', 'block {}: range {}-{} (end time {}) expected {} pulses ending at {}'.format(
                    i, db.start, db.end, edges[db.end], npulses, t_last)))
            elif same_list and (db.start != d['start'] or db.end != min(d['end'], last)):
                out.append(('datablock', 'block {}: range {}-{} expected {}-{}'.format(i, db.start, db.end, d['start'], min(d['end'], last))))
            else:
                # ---- decode the bits back from the edge distances
                if tf.prefix_free(d['s0'], d['s1']):
                    widths = [edges[j + 1] - edges[j] for j in range(db.start, db.end)]
                    if widths:
                        widths[0] -= d['t_first'] - d['t_lead']     # silence before the first bit pulse
                        widths[-1] -= edges[db.end] - t_last        # prolonged by a following zero-length pulse
                    tail = None
                    if d['tail'] and not tail_gone:
                        tail = widths.pop()
                    bits = tf.decode_bits(widths, d['s0'], d['s1'])
                    if bits != d['bits']:
                        out.append(('decode', 'block {}: decoded {} expected {}'.format(i, bits, d['bits'])))
                    elif tail is not None and tail != d['tail']:
                        out.append(('decode', 'block {}: tail pulse {} expected {}'.format(i, tail, d['tail'])))
        else:
            nonzero = any(w for bit in d['bits'] for w in (d['s1'] if bit else d['s0'])) or (d['tail'] and not tail_gone)
            # the range must take in every level change before the end of the block's last pulse
            # (that end itself may coincide with a zero-length pulse and be no level change at all)
            if nonzero and edges[db.end] > t_last and not prolonged(edges[db.end], t_last):
                out.append(('datablock', 'block {} (sample-like): end index {} at time {}, after the block ends ({})'.format(
                    i, db.end, edges[db.end], t_last)))
            elif db.end < last and edges[db.end + 1] < t_last:
                out.append(('datablock', 'block {} (sample-like): end index {} but edge {} at {} is before the block ends ({})'.format(
                    i, db.end, db.end + 1, edges[db.end + 1], t_last)))
    return out


# =========================================================================== sub-space: seq / params
def _tags(space, clause, fmt='', kinds='', features='', **extra):
    """What known_findings.json matchers see.  `features` names the input classes the reference
    found on the tape (see tapefmt.Signal.features); `group` = features, else space/clause."""
    t = {'space': space, 'fmt': fmt, 'clause': clause, 'kinds': kinds, 'features': features,
         'group': features or '{}/{}'.format(space, clause)}
    t.update(extra)
    return t


def _kinds(blocks):
    return '+'.join(b['k'] for b in blocks)


def _has_cond_stop(blocks):
    return any(b['k'] == 't2A' or (b['k'] == 'STOP' and b['flags'] == 1) for b in blocks)


def signal_case(fmt, blocks, cfg):
    start, stop, skip, is48, pol, fe = cfg
    return {'space': 'signal', 'fmt': fmt, 'blocks': blocks, 'start': start, 'stop': stop, 'skip': list(skip),
            'is48': int(is48), 'polarity': pol, 'first_edge': fe}


def run_signal_unit(stats, uidx, name, fmt, blocks, sel_cfgs, fes=FIRST_EDGES):
    """One tape x every option setting."""
    data = tf.write_file(fmt, blocks)
    kinds = [b['k'] for b in blocks]
    is48s = (True, False) if _has_cond_stop(blocks) else (True,)
    cache = {}
    n = len(blocks)
    ci = 0
    for start, stop, skip in sel_cfgs:
        sel = tuple(tf.selected_numbers(n, start, stop, skip))
        if fmt == 'tzx' and not tf.loop_shape_ok(fmt, [kinds[i - 1] for i in sel]):
            stats.counters['excluded_cut_loop'] += 1
            continue
        for is48 in is48s:
            for pol in (0, 1):
                for fe in fes:
                    ci += 1
                    key = (sel, stop == 0, is48, pol, fe)
                    ref = cache.get(key)
                    if ref is None:
                        ref = cache[key] = Ref(fmt, blocks, start, stop, skip, is48, pol, fe)
                    res = sk_play(fmt, data, start, stop, skip, is48, pol, fe)
                    stats.evaluations += 1
                    stats.transitions += 1
                    vio = compare_signal(fmt, ref, res)
                    _account(stats, ref, res, start, stop, skip, pol, fe, len(sel), uidx * 16384 + ci)
                    for clause, detail in vio:
                        cfg = (start, stop, skip, is48, pol, fe)
                        stats.violation('{}/{}/{}/start={},stop={},skip={},is48={},pol={},fe={}:{}'.format(
                            name, fmt, _kinds(blocks), start, stop, '.'.join(map(str, skip)), int(is48), pol, fe, clause),
                            signal_case(fmt, blocks, cfg), '{}: {}'.format(clause, detail),
                            tags=_tags(name, clause, fmt, _kinds(blocks), ref.feat),
                            order=uidx * 16384 + ci)
    if uidx % 211 == 0:
        stats.sample({'space': name, 'fmt': fmt, 'blocks': blocks, 'settings': ci})


def _account(stats, ref, res, start, stop, skip, pol, fe, nsel, key):
    c = stats.counters
    if ref.error:
        c['unsupported_error'] += 1
        return
    sig = ref.sig
    if res[0] not in ('error', 'crash'):
        edges, dbs = res
        stats.state(hash((len(edges), edges[-1], tuple((d.start, d.end) for d in dbs))))
    if sig.npulses and (nsel > 1 or start != 1 or stop or skip or pol or fe):
        stats.nontriv(key)
    if start > 1:
        c['start_gt1'] += 1
    if stop:
        c['stop_set'] += 1
    if skip:
        c['skip_set'] += 1
    if pol:
        c['polarity1'] += 1
    if fe:
        c['first_edge_nonzero'] += 1
    for d in sig.datablocks:
        if d['fast']:
            c['table_path'] += 1
            if tf.prefix_free(d['s0'], d['s1']):
                c['decoded_blocks'] += 1
        else:
            c['zero_merge_path'] += 1
        if d['used'] < 8:
            c['used_bits_lt8'] += 1
        if d['tail']:
            c['tail_pulse'] += 1
    if sig.tail_last:
        c['final_tail_dropped'] += 1
    if not sig.exact:
        c['level_function_only'] += 1
    for e in sig.events:
        if e[2] == 'Polarity adjustment':
            c['polarity_adjust'] += 1
            break
    for e in sig.events:
        if e[2] == 'Pause':
            c['pause_played'] += 1
            break
    for f in sig.features:
        c['feature_' + f] += 1


# ------------------------------------------------------------------- parameter spaces (one block)
def _dev_blocks(defaults, alternatives, d):
    for k, cfg in core.deviations(defaults, alternatives, d):
        yield cfg


def param_units(tier, mix):
    """(name, fmt, blocks) for the single-block parameter sweeps."""
    T = tier == 'thorough'
    strs = data_strings(mix)
    nonempty = [s for s in strs if s]
    # TZX 0x11: all deviations <= d from the ROM defaults (short pilot by default to keep it cheap)
    defaults = {'pilot': 2168, 'sync1': 667, 'sync2': 735, 'zero': 855, 'one': 1710, 'npilot': 2, 'used': 8,
                'pause': 1000, 'data': [0xFF, mix]}
    alts = {'pilot': [w for w in WIDTHS if w != 2168], 'sync1': list(WIDTHS), 'sync2': list(WIDTHS),
            'zero': [w for w in WIDTHS if w != 855], 'one': [w for w in WIDTHS if w != 1710],
            'npilot': [p for p in PILOTS if p != 2], 'used': [1, 2, 3, 4, 5, 6, 7], 'pause': [0, 1],
            'data': [s for s in strs if s != [0xFF, mix]]}
    for cfg in _dev_blocks(defaults, alts, 3 if T else 2):
        yield 'params', 'tzx', [dict(cfg, k='t11'), {'k': 't12', 'width': 855, 'count': 1}]
    # TZX 0x14: complete product
    for zero, one, used, pause, data in itertools.product(WIDTHS, WIDTHS, range(1, 9), PAUSES, strs):
        yield 'params', 'tzx', [{'k': 't14', 'zero': zero, 'one': one, 'used': used, 'pause': pause, 'data': data},
                                {'k': 't12', 'width': 855, 'count': 1}]
    # TZX 0x10 / TAP: pause x data
    for pause, data in itertools.product(PAUSES, nonempty):
        yield 'params', 'tzx', [{'k': 't10', 'pause': pause, 'data': data}, {'k': 't12', 'width': 855, 'count': 1}]
    for data in nonempty:
        yield 'params', 'tap', [{'k': 'tap', 'data': data}]
    # TZX 0x12 / 0x13 / 0x15 / 0x20
    for width, count in itertools.product(WIDTHS, PILOTS + (65535,)):
        yield 'params', 'tzx', [{'k': 't12', 'width': width, 'count': count}]
    for n in range(0, 4 if T else 3):
        for p in itertools.product(WIDTHS, repeat=n):
            yield 'params', 'tzx', [{'k': 't13', 'pulses': list(p)}]
    for tps, pause, used, data in itertools.product((1, 79, 65535), PAUSES, range(1, 9), nonempty):
        yield 'params', 'tzx', [{'k': 't12', 'width': 855, 'count': 1},
                                {'k': 't15', 'tps': tps, 'pause': pause, 'used': used, 'data': data},
                                {'k': 't12', 'width': 855, 'count': 1}]
    for pause in PAUSES:
        yield 'params', 'tzx', [{'k': 't12', 'width': 855, 'count': 1}, {'k': 't20', 'pause': pause}, {'k': 't12', 'width': 855, 'count': 1}]
    # PZX PULS: every sequence of <= 2 (T: 3) entries over count x duration x encoding
    entries = []
    durations = (0, 1, 855, 0x7FFF, 0x8000, 0x8001, 0xFFFF, 0x10000, 0x12345, 0x7FFFFFFF)
    for count, cflag in ((1, 0), (1, tf.PULS_EXPLICIT), (2, 0), (3, 0)):
        for dur in durations:
            entries.append([count, dur, cflag])
            if dur < 0x8000:
                entries.append([count, dur, cflag | tf.PULS_EXTENDED])
    for dur in (0, 1, 0x8000):
        entries.append([0x7FFF, dur, 0])
    light = [e for e in entries if e[0] != 0x7FFF]
    for n in range(0, 4 if T else 3):
        for p in itertools.product(entries if n == 1 else light, repeat=n):
            yield 'params', 'pzx', [PZXT, puls(*p), puls((1, 855))]
    # PZX DATA: level x tail x s0 x s1 x (data, used) in 8 contexts
    if T:
        seqs = [list(p) for n in range(0, 4) for p in itertools.product(WIDTHS, repeat=n)]
    else:
        seqs = [list(p) for n in range(0, 3) for p in itertools.product(WIDTHS[:4], repeat=n)]
    shapes = [([mix], 8), ([0xFF, mix], 3), ([0x00], 1), ([0xFF, 0x00], 8)]
    befores = ([], [puls((1, 855))], [paus(1, 1000)], [paus(0, 1000)])
    afters = ([], [puls((1, 855))])
    for s0, s1 in itertools.product(seqs, seqs):
        for level, tail, (data, used) in itertools.product((0, 1), (0, 945), shapes):
            for before, after in itertools.product(befores, afters):
                yield 'params', 'pzx', [PZXT] + before + [pdata(level=level, tail=tail, s0=s0, s1=s1, used=used, data=data)] + after
    # PZX DATA: used bits x data x tail x level with the standard encodings
    for used, data, tail, level in itertools.product(range(1, 9), nonempty, (0, 1, 945, 65535), (0, 1)):
        yield 'params', 'pzx', [PZXT, puls((2, 855)), pdata(level=level, tail=tail, used=used, data=data), puls((1, 855))]
    yield 'params', 'pzx', [PZXT, puls((2, 855)), pdata(tail=0, data=[]), puls((1, 855))]
    # PZX PAUS: level x duration between pulses
    for level, dur, n in itertools.product((0, 1), (0, 1, 3500000, 0x7FFFFFFF), (1, 2)):
        yield 'params', 'pzx', [PZXT, puls((n, 855)), paus(level, dur), puls((1, 855))]
    # PZXT contents / versions and every other PZX kind between pulses
    for strings, term in (([], 0), ([''], 1), (['ab'], 0), (['ab'], 1), (['ab', 'Key', 'v'], 0), (['ab', 'Key', 'v'], 1)):
        yield 'params', 'pzx', [{'k': 'PZXT', 'major': 1, 'minor': 0, 'strings': strings, 'term': term}, puls((2, 855))]


def seq_units(tier, mix):
    T = tier == 'thorough'
    for fmt, cat_full, cat_red, prefix in (('tzx', tzx_catalogue(mix), tzx_catalogue(mix, True), []),
                                           ('pzx', pzx_catalogue(mix), pzx_catalogue(mix, True), [PZXT])):
        yield 'seq', fmt, list(prefix)
        for n in (1, 2):
            for items in itertools.product(cat_full, repeat=n):
                yield 'seq', fmt, prefix + [b for it in items for b in it]
        if T:
            for items in itertools.product(cat_red, repeat=3):
                yield 'seq', fmt, prefix + [b for it in items for b in it]
    taps = [{'k': 'tap', 'data': [0x00]}, {'k': 'tap', 'data': [0xFF, mix]}, {'k': 'tap', 'data': [mix]}]
    for n in range(0, 4 if T else 3):
        for items in itertools.product(taps, repeat=n):
            yield 'seq', 'tap', list(items)


# =========================================================================== sub-space: flags
def run_flag_unit(stats, uidx, flag, payload):
    """A standard-speed block with this flag byte.  Two separately tagged clauses:
    pilot_count - each of TAP, TZX 0x10 and write_pzx plays the pilot tone the ROM would save
                  (8063 pulses if bit 7 of the flag is reset, else 3223) and the reference pulses;
    equiv       - the three formats give the same edges and data-block range."""
    from skoolkit import tape
    data = [flag] + payload
    want = tf.rom_pilot_count(flag)
    results = {}
    for ci, fmt in enumerate(('tap', 'tzx', 'pzx')):
        stats.evaluations += 1
        stats.transitions += 1
        if fmt == 'pzx':
            fname = os.path.join(tools.workdir(), 'f.pzx')
            tape.write_pzx(fname, [data])
            fdata = tools.read_file(fname)
            blocks = tf.std_pzx([data])
        else:
            blocks = tf.std_tap([data]) if fmt == 'tap' else tf.std_t10([data])
            fdata = tf.write_file(fmt, blocks)
        ref = Ref(fmt, blocks, 1, 0, (), True, 0, 0)
        res = results[fmt] = sk_play(fmt, fdata)
        vio = compare_signal(fmt, ref, res)
        stats.counters['flag_bytes'] += 1
        if res[0] not in ('error', 'crash'):
            stats.state(hash((len(res[0]), res[0][-1])))
        if vio:
            got = res[1][0].start - 2 if res[0] not in ('error', 'crash') and res[1] else None
            clause, detail = vio[0]
            stats.violation('flags/{}/flag={:02X},payload={}:{}'.format(fmt, flag, len(payload), clause),
                            {'space': 'flags', 'fmt': fmt, 'flag': flag, 'payload': payload},
                            'pilot tone of {} pulses, expected {} for flag byte 0x{:02X}; {}: {}'.format(got, want, flag, clause, detail),
                            tags=_tags('flags', 'pilot_count' if got != want else clause, fmt, flag=flag), order=uidx * 16384 + ci)
    stats.evaluations += 1
    stats.counters['flag_equiv'] += 1
    for d in flag_equiv(results):
        stats.violation('flags/equiv/flag={:02X},payload={}'.format(flag, len(payload)),
                        {'space': 'flags', 'fmt': 'equiv', 'flag': flag, 'payload': payload}, d,
                        tags=_tags('flags', 'equiv', 'all', flag=flag), order=uidx * 16384 + 3)


def flag_equiv(results):
    out = []
    if any(r[0] in ('error', 'crash') for r in results.values()):
        return ['error: {}'.format({k: r[1] for k, r in results.items() if r[0] in ('error', 'crash')})]
    e0, d0 = results['tap']
    for fmt in ('tzx', 'pzx'):
        e, d = results[fmt]
        if list(e) != list(e0):
            out.append('{} gives {} edges ending at {}, TAP {} edges ending at {}'.format(fmt, len(e), e[-1], len(e0), e0[-1]))
        elif [(x.start, x.end, bytes(x.data)) for x in d] != [(x.start, x.end, bytes(x.data)) for x in d0]:
            out.append('{} data block {} differs from TAP {}'.format(fmt, [(x.start, x.end) for x in d], [(x.start, x.end) for x in d0]))
    return out


# =========================================================================== sub-space: roundtrip
def _fill(flag, n):
    return [flag] + [(i * 37 + 11) & 255 for i in range(1, n)] if n else []


def roundtrip_lists(tier, mix):
    base = [s for s in data_strings(mix) if s]
    long_ = [_fill(0x00, 19), _fill(0xFF, 255), _fill(0xFF, 256), _fill(0x00, 257), _fill(0xFF, 65535)]
    alpha = base + long_
    for n in range(0, 4 if tier == 'thorough' else 3):
        for blocks in itertools.product(alpha if n < 3 else base, repeat=n):
            yield list(blocks)
    # TAP may hold empty blocks
    for blocks in ([[]], [[], [0xFF]], [[0xFF], []], [[], []]):
        yield blocks


def check_roundtrip(datas):
    try:
        return _check_roundtrip(datas)
    except (IndexError, KeyError, ValueError, TypeError, AttributeError, ZeroDivisionError) as e:
        # raised by write_tap / write_pzx / parse_tap / parse_pzx on a well-formed block list
        return [('crash', 'round trip raised {}: {}'.format(type(e).__name__, e))]


def _check_roundtrip(datas):
    from skoolkit import tape
    out = []
    wd = tools.workdir()
    fname = os.path.join(wd, 'r.tap')
    tape.write_tap(fname, datas)
    written = tools.read_file(fname)
    if written != tf.tap_file(datas):
        out.append(('tap_write', 'write_tap wrote {} bytes that differ from the TAP encoding of the blocks'.format(len(written))))
    for src in (fname, written):
        t = tape.parse_tap(src)
        got = [list(b.data) for b in t.blocks]
        if got != datas or [b.number for b in t.blocks] != list(range(1, len(datas) + 1)):
            out.append(('tap_parse', 'parse_tap returned {} blocks {}'.format(len(got), [g[:4] for g in got][:4])))
        if t.warnings:
            out.append(('tap_parse', 'warnings {}'.format(list(t.warnings))))
    if datas and all(datas):
        fname = os.path.join(wd, 'r.pzx')
        tape.write_pzx(fname, datas)
        written = tools.read_file(fname)
        t = tape.parse_pzx(written)
        want = tf.std_pzx(datas)
        ids = [b.block_id for b in t.blocks]
        if ids != [b['k'] for b in want]:
            out.append(('pzx_parse', 'block ids {} expected {}'.format(ids, [b['k'] for b in want])))
        else:
            got = [list(b.data) for b in t.blocks if b.block_id == 'DATA']
            if got != datas:
                out.append(('pzx_parse', 'parse_pzx returned data {}'.format([g[:4] for g in got][:4])))
            for b, w in zip(t.blocks, want):
                tm = b.timings
                if w['k'] == 'PULS':
                    if [list(p) for p in tm.pulses] != [p[:2] for p in w['pulses']] or tm.polarity != 0:
                        out.append(('pzx_parse', 'block {}: pulses {} level {} expected {}'.format(b.number, list(tm.pulses), tm.polarity, w['pulses'])))
                elif w['k'] == 'DATA':
                    if (list(tm.zero), list(tm.one), tm.tail, tm.used_bits, tm.polarity) != (w['s0'], w['s1'], w['tail'], 8, 1):
                        out.append(('pzx_parse', 'block {}: DATA timings {}'.format(b.number, (tm.zero, tm.one, tm.tail, tm.used_bits, tm.polarity))))
                elif w['k'] == 'PAUS':
                    if (tm.pause, tm.polarity) != (w['duration'], w['level']):
                        out.append(('pzx_parse', 'block {}: pause {} level {}'.format(b.number, tm.pause, tm.polarity)))
        if written != tf.pzx_file(want):
            out.append(('pzx_write', "write_pzx output differs from pzx.txt's rendering of standard-speed blocks"))
    return out


# =========================================================================== sub-space: equiv
def check_equiv(datas, pol, fe):
    """TAP == TZX 0x10 == TZX 0x11 (ROM timings) == PZX for the same bytes."""
    from skoolkit import tape
    out = []
    runs = {}
    for name, fmt, blocks in (('tap', 'tap', tf.std_tap(datas)), ('tzx10', 'tzx', tf.std_t10(datas)),
                              ('tzx11', 'tzx', tf.std_t11(datas))):
        runs[name] = sk_play(fmt, tf.write_file(fmt, blocks), polarity=pol, first_edge=fe)
    fname = os.path.join(tools.workdir(), 'e.pzx')
    tape.write_pzx(fname, datas)
    runs['pzx'] = sk_play('pzx', tools.read_file(fname), polarity=pol, first_edge=fe)
    for name, r in runs.items():
        if r[0] in ('error', 'crash'):
            return [('equiv', '{}: {} {}'.format(name, r[0], r[1]))]
    e0, d0 = runs['tap']
    e0 = list(e0)
    r0 = [(d.start, d.end, bytes(d.data)) for d in d0]
    for name in ('tzx10', 'tzx11'):
        e, d = runs[name]
        if list(e) != e0:
            i = next((i for i, (a, b) in enumerate(zip(e, e0)) if a != b), min(len(e), len(e0)))
            out.append(('equiv', '{} edges differ from TAP at index {}: {} vs {} (lengths {} / {})'.format(
                name, i, list(e[i:i + 3]), e0[i:i + 3], len(e), len(e0))))
        elif [(x.start, x.end, bytes(x.data)) for x in d] != r0:
            out.append(('equiv', '{} data blocks {} differ from TAP {}'.format(name, [(x.start, x.end) for x in d], [(x[0], x[1]) for x in r0])))
    # skoolkit's PZX writer adds the 945 T tail pulse after each block: take the tails out
    e, d = runs['pzx']
    e = list(e)
    if len(d) != len(r0):
        out.append(('equiv', 'pzx: {} data blocks, TAP {}'.format(len(d), len(r0))))
        return out
    tails = [x.end for x in d[:-1]]
    plain = []
    shift = 0
    ti = 0
    for i, t in enumerate(e):
        if ti < len(tails) and i == tails[ti]:
            if t - e[i - 1] != 945:
                out.append(('equiv', 'pzx: pulse before edge {} is {} T, expected the 945 T tail'.format(i, t - e[i - 1])))
            shift += 945
            ti += 1
            continue
        plain.append(t - shift)
    if plain != e0:
        i = next((i for i, (a, b) in enumerate(zip(plain, e0)) if a != b), min(len(plain), len(e0)))
        out.append(('equiv', 'pzx (tails removed) edges differ from TAP at index {}: {} vs {}'.format(i, plain[i:i + 3], e0[i:i + 3])))
    else:
        for k, (x, y) in enumerate(zip(d, r0)):
            exp_end = y[1] + k + (1 if k < len(d) - 1 else 0)
            if (x.start, x.end, bytes(x.data)) != (y[0] + k, exp_end, y[2]):
                out.append(('equiv', 'pzx data block {}: range {}-{} expected {}-{}'.format(k, x.start, x.end, y[0] + k, exp_end)))
    return out


# =========================================================================== sub-space: tapinfo
def tapinfo_expected(fmt, blocks, start, stop, skip):
    lines = []
    if fmt == 'tzx':
        lines.append('Version: 1.20')
    for n in tf.selected_numbers(len(blocks), start, stop, skip):
        head, info = tf.info_lines(blocks[n - 1], n)
        lines.append(head)
        if info is None:
            lines.extend([None] * (3 * len(blocks[n - 1]['hw'])))
        else:
            lines.extend('  ' + s for s in info)
    return lines


def tapinfo_args(start, stop, skip):
    args = []
    if start != 1:
        args += ['--tape-start', start]
    if stop:
        args += ['--tape-stop', stop]
    if skip:
        args += ['--tape-skip', '{}-{}'.format(skip[0], skip[-1]) if len(skip) > 1 else str(skip[0])]
    return args


def check_tapinfo(fmt, blocks, start, stop, skip, path=None):
    if path is None:
        path = tools.write_file('i.' + fmt, tf.write_file(fmt, blocks))
    r = tools.run_tool('tapinfo', tapinfo_args(start, stop, skip) + [path])
    if r.rc:
        return [('tapinfo', 'tapinfo failed: {}'.format(r.exc))]
    got = [s for s in r.out.split('\n') if s and not s.startswith('  Type: ')]
    want = tapinfo_expected(fmt, blocks, start, stop, skip)
    if len(got) != len(want):
        return [('tapinfo', '{} lines printed, expected {}: {} vs {}'.format(len(got), len(want), got[-6:], want[-6:]))]
    for g, w in zip(got, want):
        if w is None:
            if not g.startswith('  '):
                return [('tapinfo', 'line {!r} where a hardware-type line was expected'.format(g))]
        elif g != w:
            return [('tapinfo', 'printed {!r}, the block was written with {!r}'.format(g, w))]
    return []


def contiguous_cfgs(n):
    skips = [()] + [tuple(range(a, b + 1)) for a in range(1, n + 1) for b in range(a, n + 1)]
    cfgs = [(start, stop, skip) for start in range(1, n + 2) for stop in range(0, n + 2) for skip in skips]
    cfgs.sort(key=lambda c: ((c[0] != 1) + (c[1] != 0) + (c[2] != ()), c[0], c[1], len(c[2]), c[2]))
    return cfgs


def tapinfo_units(tier, mix):
    """(fmt, blocks): every catalogue item alone and every ordered pair (+ data blocks whose
    parameters the sequence catalogue does not contain)."""
    extra_tzx = [[{'k': 't10', 'pause': 1, 'data': []}], [t11(pilot=1, sync1=2, sync2=3, zero=4, one=5, npilot=6, used=7, pause=8, data=[9, 10, 11])],
                 [t14(zero=1, one=2, used=3, pause=4, data=[5])], [{'k': 't12', 'width': 65535, 'count': 65535}],
                 [{'k': 't15', 'tps': 65535, 'pause': 65535, 'used': 1, 'data': [1, 2, 3]}],
                 [{'k': 't18', 'pause': 65535, 'rate': 0xFFFFFF, 'ctype': 2, 'npulses': 0xFFFFFFFF, 'data': []}],
                 [{'k': 't18', 'pause': 0, 'rate': 1, 'ctype': 3, 'npulses': 0, 'data': [1]}],
                 [{'k': 't23', 'offset': -1}], [{'k': 't24', 'n': 65535}], [{'k': 't2B', 'level': 0}],
                 [{'k': 't28', 'options': []}], [{'k': 't32', 'strings': []}], [{'k': 't33', 'hw': []}], [{'k': 't21', 'text': ''}]]
    extra_pzx = [[puls((0x7FFF, 0x7FFFFFFF), (1, 0, 1), (2, 0x8000, 0))], [pdata(level=0, tail=65535, s0=[1, 2, 3], s1=[], used=1, data=[1, 2, 128])],
                 [paus(1, 0x7FFFFFFF)], [{'k': 'PZXT', 'major': 2, 'minor': 7, 'strings': ['T', 'K', 'V', 'K2', 'V2'], 'term': 0}],
                 [{'k': 'BRWS', 'text': ''}]]
    for fmt, cat, extra, prefix in (('tzx', tzx_catalogue(mix), extra_tzx, []), ('pzx', pzx_catalogue(mix), extra_pzx, [PZXT])):
        yield fmt, list(prefix)
        for it in cat + extra:
            yield fmt, prefix + list(it)
        for a, b in itertools.product(cat, repeat=2):
            yield fmt, prefix + list(a) + list(b)
        if tier == 'thorough':
            red = tzx_catalogue(mix, True) if fmt == 'tzx' else pzx_catalogue(mix, True)
            for a, b, c in itertools.product(red, repeat=3):
                yield fmt, prefix + list(a) + list(b) + list(c)
    for datas in ([], [[]], [[0xFF]], [[0x00, mix], [0xFF, 1, 2]], [[], [mix]], [[1], [2], [3]]):
        yield 'tap', tf.std_tap(datas)


# =========================================================================== sub-space: analysis
_ANALYSIS = re.compile(r'^\s*(\d+)\s+(\d)\s+(.*)$')


def parse_analysis(text):
    ev = []
    for line in text.split('\n')[1:]:
        m = _ANALYSIS.match(line)
        if not m:
            if line.strip():
                ev.append(('?', line))
            continue
        desc = m.group(3)
        kind, _, rest = desc.partition(' (')
        nums = () if kind == 'Polarity adjustment' else tuple(int(x) for x in re.findall(r'\d+', rest))
        ev.append((int(m.group(1)), int(m.group(2)), kind, nums))
    return ev


def expected_events(sig):
    ev = [tuple(e) for e in sig.events]
    if sig.tail_last:
        for i in range(len(ev) - 1, -1, -1):
            if ev[i][2] == 'Tail pulse':
                del ev[i]
                break
    return ev


def _strip_trailing(ev):
    # 'Polarity adjustment' lines are bookkeeping (the same toggle may be attributed to a
    # zero-length pulse or to an adjustment): the EAR column of the other lines carries the levels
    ev = [e for e in ev if e[2] != 'Polarity adjustment']
    while ev and ev[-1][2] == 'Pause':
        ev.pop()
    return ev


def check_analysis(tool, fmt, blocks, start, stop, skip, machine, pol, fe, path=None):
    if path is None:
        path = tools.write_file('a.' + fmt, tf.write_file(fmt, blocks))
    is48 = machine == 48
    if tool == 'tapinfo':
        args = ['-a'] + tapinfo_args(start, stop, skip) + [path]
        honour = False
    else:
        args = ['--tape-analysis', '-c', 'polarity={}'.format(pol), '-c', 'first-edge={}'.format(fe), '-c', 'machine={}'.format(machine)]
        args += tapinfo_args(start, stop, skip) + [path]
        honour = True
    r = tools.run_tool(tool, args)
    try:
        played = tf.play_list(fmt, blocks, start, stop, skip, is48, honour)
    except tf.Unsupported as e:
        if r.rc != 1 or 'not supported' not in (r.exc or ''):
            return [('analysis', '{}: block kind {} selected but the tool reported {!r}'.format(tool, e, r.exc))]
        return []
    if tool == 'tap2sna' and not any(tf.has_timing(b) for b in played):
        if r.rc != 1 or 'Tape is empty' not in (r.exc or ''):
            return [('analysis', 'tap2sna: nothing to play but the tool reported {!r} / {!r}'.format(r.exc, r.out[:80]))]
        return []
    if r.rc:
        return [('analysis', '{} failed: {}'.format(tool, r.exc))]
    sig = tf.expand(fmt, blocks, start, stop, skip, is48, pol, fe, honour)
    if 'zero_length_end_after_tail' in sig.features:
        # The tape ends with zero-length pulses at the very instant a tail pulse ends.  get_edges drops the last
        # edge (correct for the signal: checked in the signal sub-spaces) and with it the last *listing* line, which
        # here is the zero-length tone, not the tail pulse.  The listing is not part of C11's statement; this one
        # shape is not judged (observation recorded in DESIGN.md 9.3).
        return []
    got = _strip_trailing(parse_analysis(r.out))
    want = _strip_trailing(expected_events(sig))
    if got != want:
        i = next((i for i, (a, b) in enumerate(zip(got, want)) if a != b), min(len(got), len(want)))
        return [('analysis', '{}: line {}: printed {} expected {} ({} / {} lines)'.format(
            tool, i + 1, got[i] if i < len(got) else None, want[i] if i < len(want) else None, len(got), len(want)), sig)]
    return []


def analysis_units(tier, mix):
    for fmt, cat, prefix in (('tzx', tzx_catalogue(mix), []), ('pzx', pzx_catalogue(mix), [PZXT])):
        yield fmt, list(prefix)
        for it in cat:
            yield fmt, prefix + list(it)
        pairs = cat if tier == 'thorough' else (tzx_catalogue(mix, True) if fmt == 'tzx' else pzx_catalogue(mix, True))
        for a, b in itertools.product(pairs, repeat=2):
            yield fmt, prefix + list(a) + list(b)
    for datas in ([[0xFF]], [[0x00, mix], [0xFF, 1, 2]]):
        yield 'tap', tf.std_tap(datas)


def run_analysis_unit(stats, uidx, fmt, blocks):
    path = tools.write_file('a.' + fmt, tf.write_file(fmt, blocks))
    n = len(blocks)
    kinds = [b['k'] for b in blocks]
    machines = (48, 128) if _has_cond_stop(blocks) else (48,)
    sel = [(1, 0, ())] + [c for c in contiguous_cfgs(n) if (c[0] != 1) + (c[1] != 0) + (c[2] != ()) == 1]
    if max_loop_reps(blocks) > LOOP_HEAVY:
        sel = sel[:1]       # 65535 listing lines per run: no start/stop/skip nesting
    if max_loop_reps(blocks) >= 256:
        stats.counters['loop_count_ge_256_analysis'] += 1
    cases = []
    for start, stop, skip in sel:
        if fmt == 'tzx' and not tf.loop_shape_ok(fmt, [kinds[i - 1] for i in tf.selected_numbers(n, start, stop, skip)]):
            continue
        cases.append(('tapinfo', start, stop, skip, 48, 0, 0))
        for machine in machines:
            for pol, fe in ((0, 0), (1, 1000)):
                cases.append(('tap2sna', start, stop, skip, machine, pol, fe))
    for ci, (tool, start, stop, skip, machine, pol, fe) in enumerate(cases):
        stats.evaluations += 1
        stats.transitions += 1
        stats.counters['analysis_runs'] += 1
        vio = check_analysis(tool, fmt, blocks, start, stop, skip, machine, pol, fe, path)
        for v in vio:
            feat = ','.join(sorted(v[2].features)) if len(v) > 2 else ''
            stats.violation('analysis/{}/{}/{}/start={},stop={},skip={},m={},pol={},fe={}'.format(
                tool, fmt, _kinds(blocks), start, stop, '.'.join(map(str, skip)), machine, pol, fe),
                {'space': 'analysis', 'tool': tool, 'fmt': fmt, 'blocks': blocks, 'start': start, 'stop': stop, 'skip': list(skip),
                 'machine': machine, 'polarity': pol, 'first_edge': fe}, v[1],
                tags=_tags('analysis', 'analysis', fmt, _kinds(blocks), feat),
                order=uidx * 16384 + ci)


# =========================================================================== sub-space: bin2tap
def check_bin2tap(length):
    from skoolkit import tape
    wd = tools.workdir()
    binfile = tools.write_file('b{}.bin'.format(length), bytes((i * 37 + 11) & 255 for i in range(length)))
    out = []
    parsed = {}
    for ext in ('tap', 'pzx'):
        dest = os.path.join(wd, 'b{}.{}'.format(length, ext))
        r = tools.run_tool('bin2tap', [binfile, dest])
        if r.rc:
            return [('bin2tap', 'bin2tap failed: {}'.format(r.exc))]
        fdata = tools.read_file(dest)
        t = tape.parse_tap(fdata) if ext == 'tap' else tape.parse_pzx(fdata)
        parsed[ext] = ([list(b.data) for b in t.blocks if b.data], fdata)
    if parsed['tap'][0] != parsed['pzx'][0]:
        out.append(('bin2tap', 'the .tap and .pzx files hold different blocks'))
    else:
        datas = parsed['tap'][0]
        if parsed['tap'][1] != tf.tap_file(datas):
            out.append(('bin2tap', 'the .tap file is not the TAP encoding of its blocks'))
        if datas[-1][1:-1] != [(i * 37 + 11) & 255 for i in range(length)]:
            out.append(('bin2tap', 'the last block does not hold the binary'))
        out.extend(check_equiv(datas, 0, 0))
    return out


# =========================================================================== enumeration
def units(tier, seed):
    """The whole case space as an ordered stream of units (a unit = one tape / block list;
    every option setting of a unit is run by the shard that owns it)."""
    mix = MIXES[seed % len(MIXES)]
    T = tier == 'thorough'
    for datas in roundtrip_lists(tier, mix):
        yield ('roundtrip', datas)
    base = [s for s in data_strings(mix) if s]
    for n in range(1, 4 if T else 3):
        for datas in itertools.product(base, repeat=n):
            yield ('equiv', list(datas))
    for length in (1, 2, 3):
        yield ('bin2tap', length)
    for flag in range(256):
        for payload in ([], [mix], [0x00, 0xFF]):
            yield ('flags', flag, payload)
    for name, fmt, blocks in param_units(tier, mix):
        yield ('signal', name, fmt, blocks, None)
    for name, fmt, blocks in seq_units(tier, mix):
        yield ('signal', name, fmt, blocks, 'all')
    # TZX loop repetition counts: every start/stop/skip setting up to LOOP_HEAVY repetitions;
    # above that (65535) every setting with at most one non-default option (T: every setting)
    for blocks in loop_tapes():
        yield ('signal', 'loops', 'tzx', blocks, 'all' if T or max_loop_reps(blocks) <= LOOP_HEAVY else 'dev1')
    for fmt, blocks in tapinfo_units(tier, mix):
        yield ('tapinfo', fmt, blocks)
    for blocks in loop_tapes():
        yield ('tapinfo', 'tzx', blocks)
    for fmt, blocks in analysis_units(tier, mix):
        yield ('analysis', fmt, blocks)
    for blocks in loop_tapes():
        yield ('analysis', 'tzx', blocks)


_CFG_CACHE = {}


def _sel_cfgs(n):
    if n not in _CFG_CACHE:
        _CFG_CACHE[n] = select_cfgs(n)
    return _CFG_CACHE[n]


def run_unit(stats, uidx, unit):
    space = unit[0]
    if space == 'signal':
        _, name, fmt, blocks, mode = unit
        if max_loop_reps(blocks) >= 256:
            stats.counters['loop_count_ge_256_signal'] += 1
        if mode == 'all':
            run_signal_unit(stats, uidx, name, fmt, blocks, _sel_cfgs(len(blocks)))
        elif mode == 'dev1':
            run_signal_unit(stats, uidx, name, fmt, blocks,
                            [c for c in _sel_cfgs(len(blocks)) if (c[0] != 1) + (c[1] != 0) + (c[2] != ()) <= 1])
        else:
            run_signal_unit(stats, uidx, name, fmt, blocks, [(1, 0, ())], fes=(0, 1, 1000))
    elif space == 'roundtrip':
        datas = unit[1]
        stats.evaluations += 1
        stats.transitions += 2
        stats.counters['roundtrip_lists'] += 1
        stats.state(core.h64(('rt', tuple(len(d) for d in datas))))
        for clause, detail in check_roundtrip(datas):
            stats.violation('roundtrip/{}:{}'.format(','.join(str(len(d)) for d in datas), clause),
                            {'space': 'roundtrip', 'datas': [d if len(d) < 20 else {'flag': d[0], 'len': len(d)} for d in datas]},
                            '{}: {}'.format(clause, detail), tags=_tags('roundtrip', clause), order=uidx * 16384)
    elif space == 'equiv':
        datas = unit[1]
        for ci, (pol, fe) in enumerate(itertools.product((0, 1), FIRST_EDGES)):
            stats.evaluations += 1
            stats.transitions += 4
            stats.counters['equiv_sets'] += 1
            if len(datas) > 1 or pol or fe:
                stats.nontriv(uidx * 16384 + ci)
            for clause, detail in check_equiv(datas, pol, fe):
                stats.violation('equiv/{}/pol={},fe={}'.format('+'.join(''.join('%02X' % b for b in d) for d in datas), pol, fe),
                                {'space': 'equiv', 'datas': datas, 'polarity': pol, 'first_edge': fe}, detail,
                                tags=_tags('equiv', clause), order=uidx * 16384 + ci)
    elif space == 'bin2tap':
        stats.evaluations += 1
        stats.transitions += 2
        stats.counters['bin2tap_runs'] += 1
        for clause, detail in check_bin2tap(unit[1]):
            stats.violation('bin2tap/{}'.format(unit[1]), {'space': 'bin2tap', 'length': unit[1]}, detail,
                            tags=_tags('bin2tap', clause), order=uidx * 16384)
    elif space == 'flags':
        run_flag_unit(stats, uidx, unit[1], unit[2])
    elif space == 'tapinfo':
        _, fmt, blocks = unit
        if max_loop_reps(blocks) >= 256:
            stats.counters['loop_count_ge_256_tapinfo'] += 1
        path = tools.write_file('i.' + fmt, tf.write_file(fmt, blocks))
        n = len(blocks)
        cfgs = contiguous_cfgs(n) if n <= 3 else [c for c in contiguous_cfgs(n) if (c[0] != 1) + (c[1] != 0) + (c[2] != ()) <= 1]
        for ci, (start, stop, skip) in enumerate(cfgs):
            stats.evaluations += 1
            stats.transitions += 1
            stats.counters['tapinfo_runs'] += 1
            for clause, detail in check_tapinfo(fmt, blocks, start, stop, skip, path):
                stats.violation('tapinfo/{}/{}/start={},stop={},skip={}'.format(fmt, _kinds(blocks), start, stop, '.'.join(map(str, skip))),
                                {'space': 'tapinfo', 'fmt': fmt, 'blocks': blocks, 'start': start, 'stop': stop, 'skip': list(skip)},
                                detail, tags=_tags('tapinfo', clause, fmt, _kinds(blocks)),
                                order=uidx * 16384 + ci)
    elif space == 'analysis':
        run_analysis_unit(stats, uidx, unit[1], unit[2])


def _shard(shard, nshards, tier, seed):
    stats = core.Stats(PROPERTY)
    for uidx, unit in core.shard_iter(units(tier, seed), shard, nshards):
        run_unit(stats, uidx, unit)
        stats.counters['units_' + unit[0]] += 1
    return stats


REQUIRED_GUARDS = [
    'table_path', 'zero_merge_path', 'used_bits_lt8', 'tail_pulse', 'final_tail_dropped', 'polarity_adjust', 'pause_played',
    'level_function_only', 'decoded_blocks', 'unsupported_error', 'start_gt1', 'stop_set', 'skip_set', 'polarity1',
    'first_edge_nonzero', 'excluded_cut_loop', 'flag_bytes', 'roundtrip_lists', 'equiv_sets', 'bin2tap_runs', 'tapinfo_runs',
    'analysis_runs', 'units_signal', 'loop_count_ge_256_signal', 'loop_count_ge_256_tapinfo', 'loop_count_ge_256_analysis',
]


def run(tier, seed):
    stats = core.run_shards(_shard, tier, seed, prop=PROPERTY)
    stats.traces = stats.evaluations
    T = tier == 'thorough'
    meta = dict(
        rule='every case = one tape file x one option setting, executed on the real parsers / tap2sna block conversion / '
             'get_edges / tapinfo and compared with the reference expansion. states = distinct (edge count, end time, data-block '
             'ranges) outcomes; non-trivial = a tape that plays at least one pulse with >= 2 selected blocks or a non-default '
             'start/stop/skip/polarity/first-edge',
        exhaustive=True,
        bound='sequences of <= {} catalogue items ({}) x all start/stop/skip x polarity {{0,1}} x first-edge {{0,1000}}; '
              'TZX 0x11 parameters: all deviations <= {} from the ROM defaults; 0x14 / PZX PULS (<= {} entries) / PZX DATA '
              '(bit sequences of <= {} pulses) complete products; all 256 flag bytes; block lists of <= {} data strings for '
              'round trip and format equivalence; TZX loop counts {{1,2,255,256,257,511,512,65535}} x 3 bodies x 2 continuations (65535: {}); data byte 0x{:02X} (seed slice {})'.format(
                  3 if T else 2, 'length 3 over the reduced catalogue' if T else 'full catalogue', 3 if T else 2, 3 if T else 2,
                  3 if T else 2, 3 if T else 2,
                  'all settings; analysis listing with the default selection only' if T else
                  'settings with <= 1 non-default start/stop/skip option; analysis listing with the default selection only',
                  MIXES[seed % len(MIXES)], seed % len(MIXES)),
        assumptions=ASSUMPTIONS,
        required_guards=REQUIRED_GUARDS,
        extra={'catalogue_items': {'tzx': len(tzx_catalogue(0xA5)), 'pzx': len(pzx_catalogue(0xA5)),
                                   'tzx_reduced': len(tzx_catalogue(0xA5, True)), 'pzx_reduced': len(pzx_catalogue(0xA5, True))},
               'sub_spaces': ['roundtrip', 'equiv', 'bin2tap', 'flags', 'params', 'seq', 'loops', 'tapinfo', 'analysis'],
               'units_per_space': {k[6:]: v for k, v in sorted(stats.counters.items()) if k.startswith('units_')}},
    )
    return stats, meta


# =========================================================================== replay
def replay(case):
    space = case['space']
    if space == 'signal':
        skip = tuple(case['skip'])
        cfg = (case['start'], case['stop'], skip, bool(case['is48']), case['polarity'], case['first_edge'])
        ref = Ref(case['fmt'], case['blocks'], *cfg)
        res = sk_play(case['fmt'], tf.write_file(case['fmt'], case['blocks']), *cfg)
        return ['{}: {}'.format(c, d) for c, d in compare_signal(case['fmt'], ref, res)]
    if space == 'flags':
        st = core.Stats()
        run_flag_unit(st, 0, case['flag'], case['payload'])
        return [v['detail'] for v in st.violations if v['case']['fmt'] == case['fmt']]
    if space == 'roundtrip':
        datas = [d if isinstance(d, list) else _fill(d['flag'], d['len']) for d in case['datas']]
        return ['{}: {}'.format(c, d) for c, d in check_roundtrip(datas)]
    if space == 'equiv':
        return [d for c, d in check_equiv(case['datas'], case['polarity'], case['first_edge'])]
    if space == 'bin2tap':
        return [d for c, d in check_bin2tap(case['length'])]
    if space == 'tapinfo':
        return [d for c, d in check_tapinfo(case['fmt'], case['blocks'], case['start'], case['stop'], tuple(case['skip']))]
    if space == 'analysis':
        return [v[1] for v in check_analysis(case['tool'], case['fmt'], case['blocks'], case['start'], case['stop'],
                                             tuple(case['skip']), case['machine'], case['polarity'], case['first_edge'])]
    raise ValueError('unknown case space {!r}'.format(space))
