"""C15 - image macros and sna2img render pixel-exact PNGs.

Seam: ImageWriter.write_image(frames, file) with graphics.Frame / Udg and
flip_udgs / rotate_udgs (exactly what the image macros and sna2img call); a tool-level pass
through sna2img.main and a skool2html run (#UDGARRAY, #UDG, #SCR, #FONT, #FRAMES) confirms
the seam is the one the tools use.

Space (every part is a complete enumeration; nothing is sampled):

 K. attribute sweep (finite table, swept completely in both tiers) - every attribute byte
    0..255 on a cell that shows INK and PAPER pixels, x scale {1,2} x PNGEnableAnimation
    {1,0} x {no crop, unaligned crop} x {unmasked, OR-AND masked, AND-OR masked}: alone,
    next to the cell whose attribute differs only in BRIGHT, only in FLASH, or in both
    (shared palette), and all 256 together in 16x16 arrays (4-bit paths).
 A. geometry sweep - for each base tile array (quick: 4 of the 12 BASES, rotated by the
    seed; thorough: all 12): FULL PRODUCT scale 1..8 x mask type 0..2 x crop x in X(scale)
    x crop y in X(scale) x width in W x height in W, where X(s) = {0,1,7,8,9,8s-1,8s,8s+1}
    and W = {default,1,2,7,8,9,full-1} (rectangles whose origin lies outside the image are
    outside the domain).
 B. deviation sweep - core.deviations(d), d = 3 (quick) / 4 (thorough), over the content
    and configuration dimensions (array shape, attributes, graphic bytes, mask bytes,
    flip, rotate, tindex, alpha / PNGAlpha, PNGEnableAnimation, second frame with offsets,
    shared Udg objects), each configuration crossed with the FULL PRODUCT scale 1..8 x
    mask type 0..2 x the six crop rectangles of crops_b().
 T. sna2img.main on the d <= 1 contents (UDGARRAY / UDG / SCR / FONT macros, SCR files,
    -f -r -i -n -o -S -s).
 H. skool2html.main on the d <= 1 contents (#UDGARRAY, #UDG, #SCR, #FONT, #FRAMES, with
    [ImageWriter] PNGAlpha / PNGEnableAnimation in the ref file).

Oracle: mc/refs/png.py accepts the file (signature, chunk lengths, CRCs, chunk order,
IHDR/PLTE/tRNS/acTL/fcTL/fdAT consistency incl. sequence numbers, zlib stream, stream
length = height x (1 + row bytes)); every decoded RGBA pixel of every frame equals
mc/refs/pixels.py (Spectrum display rules + documented mask truth tables + palette /
tindex / alpha rules); a flashing image has a second frame whose region is the flash
rectangle reported by the writer and which, composed over the first frame, shows INK and
PAPER exchanged in exactly the visible flashing cells (so the rectangle must contain all of
them); whenever a specialised encoder was dispatched, the same frames written with every
dispatch slot forced to `_build_image_data_bd_any` decode to identical pixels.

Violation details start with a class label ([crash], [invalid_png], [size], [pixels],
[flash_rect], [frames], [frame_region], [delay], [generic_diff]) which is also the `class`
tag for known_findings.json matchers.
"""
import io
import itertools
import os

from .. import core, tools
from ..refs import png, pixels

PROPERTY = 'C15'
NEEDS_C = False

# design alphabet {38,07,47,78,87,B8,00,3F} plus three colourful attributes (0A, 65, D3:
# without them at most four colours exist and the 4-bit encoders can never be reached) and
# 92 (FLASH with ink = paper, which must not produce a second frame)
ATTRS = (0x38, 0x0A, 0x47, 0x65, 0x87, 0xD3, 0x07, 0x78, 0xB8, 0x00, 0x3F, 0x92)
GBYTES = (0x00, 0xFF, 0x81, 0x0F, 0xA5)
MBYTES = (0x00, 0xFF, 0xF0)
SCALES = (1, 2, 3, 4, 5, 6, 7, 8)
MASK_TYPES = (0, 1, 2)

ENCODERS = ('bd0', 'bd1_nt', 'bd1_at', 'bd2_nt', 'bd2_at', 'bd4_nt', 'bd_any')
REQUIRED_GUARDS = ['enc_' + e for e in ENCODERS] + [
    'generic_forced', 'flash_frame', 'flash_cropped', 'flash_suppressed_ink_eq_paper', 'multi_frame', 'trns_chunk',
    'tindex_applied', 'tindex_blocked_by_mask', 'mask_transparency', 'cropped_unaligned', 'bd4_masked_generic',
    'shared_udg_objects', 'tool_sna2img', 'tool_skool2html', 'attr_sweep_cell', 'attr_sweep_pair', 'attr_sweep_table']

DEFAULTS = dict(shape=(2, 1), attr0=0, spread=1, gfx=('cycle', 0), masks=('none', 0), flip=0, rotate=0,
                tindex='none', alpha=(-1, 255), anim=1, frame2=None, shared=0)


def alternatives(tier):
    alt = dict(
        shape=[(1, 1), (3, 1), (1, 2), (2, 2), (3, 2)],
        attr0=list(range(1, len(ATTRS))),
        spread=[0, 3],
        gfx=[('solid', k) for k in range(5)] + [('cycle', k) for k in ((1, 3) if tier == 'quick' else (1, 2, 3, 4))],
        masks=[('all', 0), ('all', 1), ('all', 2)] + [('mix', k) for k in ((1, 2) if tier == 'quick' else (0, 1, 2, 3))],
        flip=[1, 2, 3],
        rotate=[1, 2, 3],
        tindex=['ink0', 'paper0', 'absent'],
        alpha=[(0, 255), (128, 255), (255, 0), (-1, 0), (-1, 128)],      # (alpha parameter, PNGAlpha)
        anim=[0],
        frame2=['same', 'small', 'shift'],
        shared=[1],
    )
    return alt


# bases of the geometry sweep (overrides of DEFAULTS); chosen to cover bit depth 1/2/4,
# masked/unmasked, flashing cells (incl. ink = paper and paper-only ones), transforms,
# tindex and a two-frame sequence
BASES = (
    dict(),
    dict(shape=(3, 2)),
    dict(shape=(2, 2), masks=('mix', 1), spread=0),
    dict(shape=(3, 1), attr0=4, masks=('all', 2)),
    dict(shape=(1, 2), spread=0),
    dict(shape=(2, 2), attr0=8),
    dict(shape=(3, 2), masks=('mix', 2), spread=3),
    dict(shape=(1, 1), attr0=4, masks=('all', 1)),
    dict(shape=(2, 1), flip=1, rotate=1, masks=('mix', 3), attr0=4),
    dict(shape=(2, 2), frame2='shift'),
    dict(shape=(3, 1), tindex='ink0', alpha=(0, 255), attr0=3),
    dict(shape=(2, 2), gfx=('solid', 0), attr0=5, spread=0),
)


# --------------------------------------------------------------------------- case building
def make_tiles(cfg):
    """Explicit tiles ((attr, data, mask), ...) rows of a content configuration."""
    w, h = cfg['shape']
    rows = []
    for j in range(h):
        row = []
        for c in range(w):
            i = j * w + c
            attr = ATTRS[(cfg['attr0'] + cfg['spread'] * i) % len(ATTRS)]
            kind, k = cfg['gfx']
            if kind == 'solid':
                data = (GBYTES[k],) * 8
            else:
                data = tuple(GBYTES[(k + r + 2 * i) % 5] for r in range(8))
            mkind, mk = cfg['masks']
            if mkind == 'none':
                mask = None
            elif mkind == 'all':
                mask = (MBYTES[mk],) * 8
            elif (mk + i) % 4 == 0:
                mask = None
            else:
                mask = tuple(MBYTES[(mk + i + r) % 3] for r in range(8))
            row.append((attr, data, mask))
        rows.append(tuple(row))
    if cfg['shared']:
        rows = [tuple(rows[0][0] for _ in row) for row in rows]
    return tuple(rows)


def _colours_used(tiles):
    used = set()
    for row in tiles:
        for attr, _, _ in row:
            ink, paper, _ = pixels.attr_colours(attr)
            used.add(ink)
            used.add(paper)
    return used


def _dims_after(shape, rotate, scale):
    w, h = shape if rotate % 2 == 0 else (shape[1], shape[0])
    return 8 * scale * w, 8 * scale * h


def make_case(cfg, scale, mask, crop, tiles=None):
    """JSON-serialisable explicit case for the seam check; None if the crop rectangle is
    outside the domain (origin not inside the constructed image)."""
    if tiles is None:
        tiles = make_tiles(cfg)
    fw, fh = _dims_after(cfg['shape'], cfg['rotate'], scale)
    rect = pixels.visible_rect(fw, fh, crop)
    if rect is None:
        return None
    alpha, png_alpha = cfg['alpha']
    f1 = dict(tiles=tiles, shared=cfg['shared'], flip=cfg['flip'], rotate=cfg['rotate'], scale=scale, mask=mask,
              crop=tuple(crop), delay=32, tindex=0, alpha=alpha, xo=0, yo=0)
    frames = [f1]
    f2kind = cfg['frame2']
    if f2kind:
        w1, h1 = rect[2] - rect[0], rect[3] - rect[1]
        f2 = dict(f1, delay=300, tindex=3, alpha=77)        # tindex/alpha of later frames are documented as ignored
        if f2kind == 'same':
            f1['delay'] = 5
            f2['tiles'] = tuple(tuple((a, d[1:] + d[:1], m) for a, d, m in row) for row in tiles)
        elif f2kind == 'small':
            a, d, m = tiles[0][0]
            f2['tiles'] = (((ATTRS[(cfg['attr0'] + 1) % len(ATTRS)], d, m),),)
            xo, yo = min(1, w1 - 1), min(2, h1 - 1)
            f2.update(crop=(0, 0, min(8 * scale, w1 - xo), min(8 * scale, h1 - yo)), xo=xo, yo=yo, shared=0)
        else:
            w2, h2 = max(1, w1 - 1), max(1, h1 - 1)
            f2.update(mask=(mask + 1) % 3, crop=(crop[0], crop[1], w2, h2), xo=w1 - w2, yo=h1 - h2)
        frames.append(f2)
    t = cfg['tindex']
    if t != 'none':
        ink, paper, _ = pixels.attr_colours(tiles[0][0][0])
        if t == 'ink0':
            f1['tindex'] = ink
        elif t == 'paper0':
            f1['tindex'] = paper
        else:
            used = set()
            for f in frames:
                used |= _colours_used(f['tiles'])
            f1['tindex'] = min(c for c in range(1, 16) if c not in used)
    return dict(kind='seam', frames=frames, png_alpha=png_alpha, animation=cfg['anim'])


def _tuplify(x):
    if isinstance(x, list):
        return tuple(_tuplify(v) for v in x)
    return x


def normalise_case(case):
    """Undo what JSON does to tuples (the tiles are used as cache keys)."""
    case = dict(case)
    if 'frames' in case:
        case['frames'] = [dict(f, tiles=_tuplify(f['tiles']), crop=tuple(f['crop'])) for f in case['frames']]
    if 'image' in case:
        case['image'] = {k: _tuplify(v) for k, v in case['image'].items()}
    if 'images' in case:
        case['images'] = [{k: _tuplify(v) for k, v in p.items()} for p in case['images']]
    return case


def x_values(scale):
    c = 8 * scale
    return sorted({0, 1, 7, 8, 9, c - 1, c, c + 1})


def w_values(full):
    out = []
    for v in (None, 1, 2, 7, 8, 9, full - 1):
        if v is None or v > 0:
            if v not in out:
                out.append(v)
    return out


def crops_a(scale, fw, fh):
    """Full product of the crop alphabets (origins outside the image are not in the domain)."""
    xs = [x for x in x_values(scale) if x < fw]
    ys = [y for y in x_values(scale) if y < fh]
    return list(itertools.product(xs, ys, w_values(fw), w_values(fh)))


def crops_b(scale, fw, fh):
    """The six crop rectangles of the deviation sweep (all valid for every array shape):
    none; unaligned origin; unaligned small rectangle across the first cell boundary; a
    rectangle starting on the last pixel column of the first cell; a two-row strip across
    the first cell-row boundary; cell-aligned origin with the right/bottom edge cut."""
    c = 8 * scale
    out = [(0, 0, None, None), (1, 1, None, None), (7, 1, 9, 7), (c - 1, 0, 9, None), (0, c - 1, None, 2)]
    if fw > c:
        out.append((c, 0, None, fh - 1))
    else:
        out.append((0, 0, fw - 1, fh - 1))
    return out


# --------------------------------------------------------------------------- harness context
class Ctx:
    """Per-process handles on the real code, with counting wrappers around the encoders."""

    def __init__(self):
        from skoolkit.image import ImageWriter
        from skoolkit import graphics
        self.ImageWriter = ImageWriter
        self.g = graphics
        self.writers = {}
        self.methods = []
        self.sources = {}

    def writer(self, png_alpha, animation, forced=False):
        key = (png_alpha, animation, forced)
        iw = self.writers.get(key)
        if iw is None:
            iw = self.ImageWriter({'PNGAlpha': png_alpha, 'PNGEnableAnimation': animation})
            self.instrument(iw, forced)
            self.writers[key] = iw
        return iw

    def instrument(self, iw, forced=False):
        """Count dispatches (harness side; nothing in /repo is touched); with `forced`
        every slot of the dispatch table is pointed at the generic encoder."""
        w = iw.writer
        generic = w._build_image_data_bd_any
        table = w.png_method_dict
        for bd in table:
            for fs in table[bd]:
                for masked in table[bd][fs]:
                    fn = generic if forced else table[bd][fs][masked]
                    table[bd][fs][masked] = self._wrap(fn, (bd, fs, masked))

    def _wrap(self, fn, slot):
        name = fn.__name__.replace('_build_image_data_', '')
        rec = self.methods

        def call(frame, mask, bit_depth):
            rec.append((name, slot))
            return fn(frame, mask, bit_depth)
        return call

    def source(self, f):
        """Reference rendering source of a frame specification (cached)."""
        then = tuple(tuple(t) for t in f.get('then', ()))
        key = (f['tiles'], f['flip'], f['rotate'], bool(f.get('invert')), then)
        s = self.sources.get(key)
        if s is None:
            if len(self.sources) > 64:
                self.sources.clear()
            tiles = [[pixels.Tile(*t) for t in row] for row in f['tiles']]
            if f.get('invert'):
                tiles = pixels.invert_flashing(tiles)
            s = self.sources[key] = pixels.Source(tiles, f['flip'], f['rotate'], then)
        return s

    def build_frames(self, case):
        g = self.g
        frames = []
        for f in case['frames']:
            pool = {}
            udgs = []
            for row in f['tiles']:
                urow = []
                for t in row:
                    if f.get('shared'):
                        u = pool.get(t)
                        if u is None:
                            u = pool[t] = g.Udg(t[0], list(t[1]), None if t[2] is None else list(t[2]))
                    else:
                        u = g.Udg(t[0], list(t[1]), None if t[2] is None else list(t[2]))
                    urow.append(u)
                udgs.append(urow)
            g.flip_udgs(udgs, f['flip'])
            g.rotate_udgs(udgs, f['rotate'])
            x, y, w, h = f['crop']
            frames.append(g.Frame(udgs, f['scale'], f['mask'], x, y, w, h, f['delay'], tindex=f['tindex'],
                                  alpha=f['alpha'], x_offset=f['xo'], y_offset=f['yo']))
        return frames


_ctx = None


def ctx():
    global _ctx
    if _ctx is None or _ctx[0] != os.getpid():
        _ctx = (os.getpid(), Ctx())
    return _ctx[1]


# --------------------------------------------------------------------------- comparison
def _first_diff(exp_rows, got_rows):
    for y, (e, g) in enumerate(zip(exp_rows, got_rows)):
        if e != g:
            for x in range(min(len(e), len(g))):
                if e[x] != g[x]:
                    return x, y
            return min(len(e), len(g)), y
    return None


def compare_rows(what, exp_rows, exp_table, img, got_rows, errors):
    """Exact RGBA comparison of expected palette-code rows with decoded index rows."""
    ids = {}
    et = bytearray(256)
    for k, rgba in enumerate(exp_table):
        et[k] = ids.setdefault(rgba, len(ids))
    got_table = img.rgba_table()
    dt = bytearray([254]) * 256
    for k, rgba in enumerate(got_table):
        dt[k] = ids.get(rgba, 253)
    if len(exp_rows) != len(got_rows) or (exp_rows and len(exp_rows[0]) != len(got_rows[0])):
        errors.append('[size] {}: size {}x{}, expected {}x{}'.format(what, len(got_rows[0]) if got_rows else 0, len(got_rows),
                                                                  len(exp_rows[0]) if exp_rows else 0, len(exp_rows)))
        return False
    if b''.join(exp_rows).translate(et) == b''.join(got_rows).translate(dt):
        return True
    e = [r.translate(et) for r in exp_rows]
    g = [r.translate(dt) for r in got_rows]
    x, y = _first_diff(e, g)
    n = sum(1 for a, b in zip(e, g) for p, q in zip(a, b) if p != q)
    errors.append('[pixels] {}: pixel ({},{}) is RGBA {} but the display rules give {} ({} of {} pixels differ)'.format(
        what, x, y, got_table[got_rows[y][x]], exp_table[exp_rows[y][x]], n, len(e) * len(e[0])))
    return False


def _delay_ok(fd, delay):
    num, den = fd.delay
    return num * 100 == delay * den


def verify_image(data, case, cx, errors, reported_flash='unknown', stats=None):
    """Decode `data` and compare it with the reference rendering of `case` (frames as in
    the seam case).  Returns the decoded image (or None)."""
    try:
        img = png.decode(data)
    except png.PngError as e:
        errors.append('[invalid_png] {}'.format(e))
        return None
    frames = case['frames']
    single = len(frames) == 1
    want_flash = bool(single and case['animation'])
    rend = []
    for f in frames:
        src = cx.source(f)
        rend.append((src, src.render(f['scale'], f['crop'], f['mask'], flash=want_flash)))
    f1 = frames[0]
    r1 = rend[0][1]
    mask_trans = any(r.has_trans for _, r in rend)
    table = pixels.rgba_table(mask_trans, f1['tindex'], f1['alpha'], case['png_alpha'])
    if (img.width, img.height) != (r1.width, r1.height):
        errors.append('[size] IHDR size {}x{}, expected {}x{}'.format(img.width, img.height, r1.width, r1.height))
        return img
    compare_rows('frame 1', r1.rows, table, img, img.frames[0].rows, errors)

    if single:
        if len(img.frames) > 2:
            errors.append('[frames] {} frames in the file of a single-frame image'.format(len(img.frames)))
        elif len(img.frames) == 2:
            fd = img.frames[1]
            rect = fd.rect()
            if not want_flash:
                errors.append('[frames] second frame {} although animation is disabled'.format(rect))
            if reported_flash != 'unknown' and (reported_flash is None or tuple(reported_flash) != rect):
                errors.append('[flash_rect] second frame region {} but the reported flash rectangle is {}'.format(rect, reported_flash))
            if not _delay_ok(img.frames[0], f1['delay']) or not _delay_ok(fd, f1['delay']):
                errors.append('[delay] frame delays {} / {}, expected {}/100'.format(img.frames[0].delay, fd.delay, f1['delay']))
            if want_flash:
                if rect == r1.flash_rect and fd.blend_op == 0 and img.frames[0].dispose_op == 0:
                    compare_rows('frame 2 (flash)', r1.flash_rows, table, img, fd.rows, errors)
                else:
                    # general path: compose the animation and compare the whole canvas
                    full = rend[0][0].render_phase1(f1['scale'], f1['crop'], f1['mask'])
                    canvas = img.canvases()[1]
                    _compare_canvas('frame 2 (flash, composed)', full, table, canvas, errors)
        else:
            if reported_flash not in ('unknown', None):
                errors.append('[flash_rect] flash rectangle {} reported but the file has no second frame'.format(reported_flash))
            if want_flash and r1.changed:
                errors.append('[frames] flashing cells are visible (expected second frame at {}) but the file has one frame'.format(r1.flash_rect))
    else:
        if not img.animated or len(img.frames) != len(frames):
            errors.append('[frames] {} frames in the file, expected {}'.format(len(img.frames) if img.animated else 1, len(frames)))
        else:
            for n in range(len(frames)):
                f, (src, r), fd = frames[n], rend[n], img.frames[n]
                if not _delay_ok(fd, f['delay']):
                    errors.append('[delay] frame {} delay {}, expected {}/100'.format(n + 1, fd.delay, f['delay']))
                if n == 0:
                    continue
                want = (f['xo'], f['yo'], r.width, r.height)
                if fd.rect() != want:
                    errors.append('[frame_region] frame {} region {}, expected {}'.format(n + 1, fd.rect(), want))
                    continue
                if fd.blend_op != 0 or img.frames[n - 1].dispose_op != 0:
                    errors.append('[frames] frame {}: blend_op {} / previous dispose_op {} (frame pixels would not be shown as given)'.format(
                        n + 1, fd.blend_op, img.frames[n - 1].dispose_op))
                compare_rows('frame {}'.format(n + 1), r.rows, table, img, fd.rows, errors)

    if stats is not None:
        c = stats.counters
        if img.has_trns:
            c['trns_chunk'] += 1
        if mask_trans:
            c['mask_transparency'] += 1
        if f1['tindex']:
            if mask_trans:
                c['tindex_blocked_by_mask'] += 1
            elif any(f1['tindex'] in row for row in r1.rows):
                c['tindex_applied'] += 1
        if len(img.frames) == 2 and single:
            c['flash_frame'] += 1
            if want_flash and img.frames[1].rect() != r1.flash_rect:
                # not a violation of the property (the frame is still confined to the reported
                # rectangle and shows the right pixels); recorded as an observation
                c['info_flash_rect_larger_than_visible_flashing_cells'] += 1
            if r1.flash_rect and (r1.flash_rect[2] % (8 * f1['scale']) or r1.flash_rect[3] % (8 * f1['scale'])):
                c['flash_cropped'] += 1
        if want_flash and not r1.changed:
            for bx, by, attr in rend[0][0].cells():
                if attr & 0x80 and (attr & 7) == ((attr >> 3) & 7):
                    c['flash_suppressed_ink_eq_paper'] += 1
                    break
        if not single:
            c['multi_frame'] += 1
        x, y, w, h = f1['crop']
        if x % (8 * f1['scale']) or y % (8 * f1['scale']):
            c['cropped_unaligned'] += 1
    return img


def _compare_canvas(what, exp_rows, exp_table, canvas, errors):
    for y, row in enumerate(exp_rows):
        for x, code in enumerate(row):
            if canvas[y][x] != exp_table[code]:
                errors.append('[pixels] {}: pixel ({},{}) is RGBA {} but the display rules give {}'.format(
                    what, x, y, canvas[y][x], exp_table[code]))
                return


def _rgba_frames(img, ids):
    """Frames as (region, rows of RGBA ids); `ids` (RGBA -> id) is shared between images."""
    t = img.rgba_table()
    tr = bytes(bytearray(ids.setdefault(rgba, len(ids)) for rgba in t) + bytearray([255]) * (256 - len(t)))
    return [(f.rect(), b''.join(f.rows).translate(tr), f.width) for f in img.frames]


def check_seam(case, cx=None, stats=None):
    """Run one seam case on the real code; returns a list of violation details."""
    cx = cx or ctx()
    errors = []
    frames = cx.build_frames(case)
    iw = cx.writer(case['png_alpha'], case['animation'])
    del cx.methods[:]
    out = io.BytesIO()
    try:
        iw.write_image(frames, out)
    except Exception as e:
        return ['[crash] write_image raised {}: {}'.format(type(e).__name__, e)]
    methods = list(cx.methods)
    data = out.getvalue()
    if stats is not None:
        stats.transitions += 1
    img = verify_image(data, case, cx, errors, getattr(frames[0], 'flash_rect', None), stats)
    if img is None:
        return errors
    specialised = [m for m in methods if m[0] != 'bd_any']
    if stats is not None:
        c = stats.counters
        for name, slot in methods:
            c['enc_' + name] += 1
            if name == 'bd_any' and slot == (4, True, 1):
                c['bd4_masked_generic'] += 1
        if any(f.get('shared') and len({t for row in f['tiles'] for t in row}) < sum(len(r) for r in f['tiles'])
               for f in case['frames']):
            c['shared_udg_objects'] += 1
        stats.state((tuple(m[0] for m in methods), img.bit_depth, len(img.palette), img.has_trns, len(img.frames),
                     img.width, img.height))
        f1 = case['frames'][0]
        if specialised or img.has_trns or len(img.frames) > 1 or f1['flip'] or f1['rotate']:
            s = 8 * f1['scale']
            stats.nontriv((tuple(m[0] for m in methods), img.bit_depth, len(img.palette), img.has_trns, len(img.frames),
                           f1['crop'][0] % s, f1['crop'][1] % s, img.width % 8, f1['flip'], f1['rotate'], f1['mask'],
                           f1['scale']))
    if specialised:
        # differential: the same frames through the generic encoder only
        frames2 = cx.build_frames(case)
        out2 = io.BytesIO()
        try:
            cx.writer(case['png_alpha'], case['animation'], forced=True).write_image(frames2, out2)
            img2 = png.decode(out2.getvalue())
        except Exception as e:
            errors.append('[generic_diff] generic encoder run failed: {}: {}'.format(type(e).__name__, e))
        else:
            if stats is not None:
                stats.transitions += 1
                stats.counters['generic_forced'] += 1
            ids = {}
            a, b = _rgba_frames(img, ids), _rgba_frames(img2, ids)
            names = sorted({m[0] for m in specialised})
            if len(a) != len(b):
                errors.append('[generic_diff] specialised encoder {} gives {} frames, the generic encoder {}'.format(names, len(a), len(b)))
            else:
                for n, (fa, fb) in enumerate(zip(a, b)):
                    if fa[0] != fb[0]:
                        errors.append('[generic_diff] frame {}: region {} via {}, {} via the generic encoder'.format(n + 1, fa[0], names, fb[0]))
                    elif fa[1] != fb[1]:
                        k = next(i for i, (p, q) in enumerate(zip(fa[1], fb[1])) if p != q)
                        errors.append('[generic_diff] frame {}: pixels via {} differ from the generic encoder, first at {}'.format(
                            n + 1, names, (k % fa[2], k // fa[2])))
    return errors


# --------------------------------------------------------------------------- tool level
G_OFF, M_OFF, A_OFF = 0, 48, 96         # per-image memory region: graphics, masks, attributes
REGION = 128
FONT_TEXT = '!$+'


def _scr_mem():
    """A fixed 6912-byte screen: display file by formula, attributes running through all 256 byte values."""
    mem = {}
    for a in range(6144):
        v = (a * 37 + 11) & 255
        if (a >> 5) % 7 == 3:
            v = 0 if a & 1 else 255
        mem[16384 + a] = v
    for i in range(768):
        mem[22528 + i] = (i * 7 + i // 32) & 255            # every attribute byte occurs (thrice)
    return mem


_SCR = None


def scr_mem():
    global _SCR
    if _SCR is None:
        _SCR = _scr_mem()
    return _SCR


def _crop_text(crop):
    parts = ['{}={}'.format(n, v) for n, v in zip(('x', 'y', 'width', 'height'), crop) if v not in (None, 0) or (n in 'xy' and v)]
    parts = [p for p in parts if not p.endswith('=0')]
    return '{' + ','.join(parts) + '}' if parts else ''


def _ta_text(frame):
    """tindex / alpha as keyword parameters (negative alpha = default = omitted)."""
    out = ''
    if frame['tindex']:
        out += ',tindex={}'.format(frame['tindex'])
    if frame['alpha'] >= 0:
        out += ',alpha={}'.format(frame['alpha'])
    return out


def in_domain(case):
    """Every frame's crop origin lies inside its constructed image."""
    for f in expect_of(case)['frames']:
        tw, th = len(f['tiles'][0]), len(f['tiles'])
        n = f['rotate'] + sum(r for _, r in f.get('then', ()))
        if n % 2:
            tw, th = th, tw
        if pixels.visible_rect(8 * f['scale'] * tw, 8 * f['scale'] * th, f['crop']) is None:
            return False
    return True


def tool_image(p, base):
    """Macro text (no '#', no filename), memory contents {address: byte} and the expected
    frame specification for one tool-level image description `p`.

    The mapping from macro parameters to tiles is taken from skool-macros.rst (#UDGARRAY,
    #UDG, #FONT, #SCR) and the Spectrum display-file layout."""
    t = p['type']
    crop = tuple(p.get('crop', (0, 0, None, None)))
    frame = dict(flip=p.get('flip', 0), rotate=p.get('rotate', 0), scale=p['scale'], mask=p.get('mask', 0), crop=crop,
                 delay=32, tindex=p.get('tindex', 0), alpha=p.get('alpha', -1), xo=0, yo=0, shared=0)
    mem = {}
    if t == 'udgarray':
        tiles = p['tiles']
        w = len(tiles[0])
        specs = []
        i = 0
        for row in tiles:
            for attr, data, mask in row:
                for r in range(8):
                    mem[base + G_OFF + 8 * i + r] = data[r]
                spec = str(base + G_OFF + 8 * i)
                if mask is not None:
                    for r in range(8):
                        mem[base + M_OFF + 8 * i + r] = mask[r]
                    spec += ':{}'.format(base + M_OFF + 8 * i)
                mem[base + A_OFF + i] = attr
                specs.append(spec)
                i += 1
        a0 = base + A_OFF
        attrs = str(a0) if i == 1 else '{}-{}'.format(a0, a0 + i - 1)
        macro = 'UDGARRAY{},7,{},1,0,{},{},{}{}({})[{}]{}'.format(
            w, p['scale'], frame['flip'], frame['rotate'], frame['mask'], _ta_text(frame), ';'.join(specs), attrs,
            _crop_text(crop))
        frame['tiles'] = tiles
    elif t == 'udg':
        step, inc, mstep = p['step'], p['inc'], p['mstep']
        g = [GBYTES[(p['g'] + r) % 5] for r in range(8)]
        m = [MBYTES[(p['g'] + r) % 3] for r in range(8)]
        for r in range(8):
            mem[base + r * step] = g[r]
            mem[base + r * step + (1 if step > 1 else 64)] = 0x55       # bytes that must not be used
            if p['with_mask']:
                mem[base + 32 + r * mstep] = m[r]
        macro = 'UDG{},{},{},{},{},{},{},{}{}'.format(base, p['attr'], p['scale'], step, inc, frame['flip'],
                                                     frame['rotate'], frame['mask'], _ta_text(frame))
        if p['with_mask']:
            macro += ':{},{}'.format(base + 32, mstep)
        macro += _crop_text(crop)
        frame['tiles'] = (((p['attr'], tuple((v + inc) & 255 for v in g), tuple(m) if p['with_mask'] and frame['mask'] else None),),)
    elif t == 'font':
        text = FONT_TEXT if p['text'] else ''.join(chr(32 + k) for k in range(p['chars']))
        row = []
        for ch in text:
            k = ord(ch) - 32
            data = tuple(GBYTES[(k + r + p['g']) % 5] for r in range(8))
            for r in range(8):
                mem[base + 8 * k + r] = data[r]
            row.append((p['attr'], data, None))
        macro = 'FONT{},{},{},{}{}'.format(base, 0 if p['text'] else p['chars'], p['attr'], p['scale'], _ta_text(frame))
        if p['text']:
            macro += '({})'.format(text)
        macro += _crop_text(crop)
        frame['tiles'] = (tuple(row),)
    elif t in ('scr', 'plain'):
        mem = scr_mem()
        x, y, w, h = p['origin'] + p['size']
        tiles = pixels.screen_tiles(mem, x, y, w, h)
        frame['tiles'] = tuple(tuple((u.attr, u.data, None) for u in row) for row in tiles)
        macro = None
        if t == 'scr':
            macro = 'SCR{},{},{},{},{},16384,22528{}{}'.format(p['scale'], x, y, w, h, _ta_text(frame), _crop_text(crop))
    else:
        raise ValueError(t)
    return macro, mem, frame


def _mem_bytes(mem):
    org = min(mem)
    return org, bytes(mem.get(a, 0) for a in range(org, max(mem) + 1))


def expect_of(case):
    """The seam-style expectation {'frames', 'png_alpha', 'animation'} of any case."""
    kind = case['kind']
    if kind == 'seam':
        return case
    if kind == 'sna2img':
        _, _, frame = tool_image(case['image'], 32768)
        o = case['opts']
        frame['invert'] = int(bool(o.get('invert')))
        frame['then'] = ((o.get('flip', 0), o.get('rotate', 0)),)
        return dict(frames=[frame], png_alpha=255, animation=0 if o.get('no_anim') else 1)
    if kind == 'skool2html':
        frames = []
        for k, p in enumerate(case['images']):
            frame = tool_image(p, 32768 + REGION * k)[2]
            if k:
                frame.update(delay=p.get('delay', 32), xo=p.get('xo', 0), yo=p.get('yo', 0))
            else:
                frame['delay'] = p.get('delay', 32)
            frames.append(frame)
        return dict(frames=frames, png_alpha=case['png_alpha'], animation=case['animation'])
    raise ValueError('unknown case kind {!r}'.format(kind))


def check_sna2img(case, cx=None, stats=None):
    cx = cx or ctx()
    p, o = case['image'], case['opts']
    macro, mem, _ = tool_image(p, 32768)
    d = tools.workdir()
    out = os.path.join(d, 'out.png')
    if os.path.exists(out):
        os.remove(out)
    args = []
    if o.get('flip'):
        args += ['-f', o['flip']]
    if o.get('rotate'):
        args += ['-r', o['rotate']]
    if o.get('invert'):
        args.append('-i')
    if o.get('no_anim'):
        args.append('-n')
    if p['type'] in ('scr', 'plain'):
        org, data = _mem_bytes(mem)
        infile = tools.write_file('in.scr', data)
        if macro is None:
            args += ['-o', '{},{}'.format(*p['origin']), '-S', '{}x{}'.format(*p['size']), '-s', p['scale']]
    else:
        org, data = _mem_bytes(mem)
        infile = tools.write_file('in.bin', data)
        args += ['-O', org]
    if macro is not None:
        args += ['-e', ('#' if o.get('hash') else '') + macro]
    res = tools.run_tool('sna2img', args + [infile, out])
    if stats is not None:
        stats.transitions += 1
        stats.counters['tool_sna2img'] += 1
    if res.rc or not os.path.exists(out):
        return ['[crash] sna2img {} failed: {} {}'.format(' '.join(str(a) for a in args), res.exc, res.err[-200:])]
    errors = []
    verify_image(tools.read_file(out), expect_of(case), cx, errors, 'unknown', stats)
    return errors


def _skool_text(mem, paragraphs):
    lines = []
    addrs = sorted(mem)
    low = [a for a in addrs if a < 24576]
    high = [a for a in addrs if a >= 24576 + 16]

    def block(aa):
        first = True
        i = 0
        while i < len(aa):
            j = i
            while j + 1 < len(aa) and aa[j + 1] == aa[j] + 1 and j + 1 - i < 32:
                j += 1
            lines.append('{}{:05d} DEFB {}'.format('b' if first else ' ', aa[i], ','.join(str(mem[a]) for a in aa[i:j + 1])))
            first = False
            i = j + 1
    if low:
        lines.append('; Screen')
        block(low)
        lines.append('')
    lines.append('; Images')
    lines.append(';')
    for k, para in enumerate(paragraphs):
        if k:
            lines.append('; .')
        lines.append('; ' + para)
    lines.append('c24576 RET')
    lines.append('')
    if high:
        lines.append('; Data')
        block(high)
    return '\n'.join(lines) + '\n'


def run_skool2html(cases, stats=None):
    """One skool2html run for a batch of skool2html cases (all with the same png_alpha and
    animation settings).  Returns {index: (png bytes or None, error or None)}."""
    import shutil
    d = tools.workdir()
    root = os.path.join(d, 'html')
    shutil.rmtree(root, ignore_errors=True)
    mem = {}
    paragraphs = []
    outs = []
    for n, case in enumerate(cases):
        base = 32768 + 2 * REGION * n
        names = []
        text = ''
        for k, p in enumerate(case['images']):
            macro, m, _ = tool_image(p, base + REGION * k)
            mem.update(m)
            if len(case['images']) == 1:
                text += '#{}(/img/i{})'.format(macro, n)
            else:
                names.append('f{}x{}'.format(n, k))
                text += '#{}(*{})'.format(macro, names[-1])
        if names:
            specs = [names[0] + ',{}'.format(case['images'][0].get('delay', 32))]
            for k, p in enumerate(case['images'][1:], 1):
                specs.append('{},{},{},{}'.format(names[k], p.get('delay', 32), p.get('xo', 0), p.get('yo', 0)))
            text += '#FRAMES({})(/img/i{})'.format(';'.join(specs), n)
        paragraphs.append(text)
        outs.append(os.path.join(root, 'game', 'img', 'i{}.png'.format(n)))
    skool = tools.write_file('game.skool', _skool_text(mem, paragraphs))
    tools.write_file('game.ref', '[ImageWriter]\nPNGAlpha={}\nPNGEnableAnimation={}\n'.format(
        cases[0]['png_alpha'], cases[0]['animation']))
    res = tools.run_tool('skool2html', ['-q', '-d', root, skool])
    if stats is not None:
        stats.transitions += 1
        stats.counters['tool_skool2html'] += 1
    result = {}
    for n, path in enumerate(outs):
        if os.path.exists(path) and not res.rc:
            result[n] = (tools.read_file(path), None)
        else:
            result[n] = (None, 'skool2html failed: {} {}'.format(res.exc, res.err[-200:]) if res.rc else 'no image file written')
    return result


def check_skool2html(case, cx=None, stats=None, data=None):
    cx = cx or ctx()
    if data is None:
        data, err = run_skool2html([case], stats)[0]
        if err:
            return ['[crash] ' + err]
    errors = []
    verify_image(data, expect_of(case), cx, errors, 'unknown', stats)
    return errors


def _tool_contents():
    """Content configurations of the tool-level passes: d <= 1, restricted to what the
    tools can express (one frame, default PNGAlpha for sna2img, no shared objects)."""
    out = []
    for _, cfg in core.deviations(DEFAULTS, alternatives('quick'), 1):
        if cfg['frame2'] or cfg['shared'] or cfg['alpha'][1] != 255:
            continue
        out.append(cfg)
    return out


def _udgarray_params(cfg, scale, mask, crop):
    case = make_case(cfg, scale, mask, crop)
    if case is None:
        return None
    f = case['frames'][0]
    return dict(type='udgarray', tiles=f['tiles'], scale=scale, flip=f['flip'], rotate=f['rotate'], mask=mask,
                tindex=f['tindex'], alpha=f['alpha'], crop=crop)


TOOL_OPTS = (dict(), dict(no_anim=1), dict(invert=1), dict(flip=1, rotate=1), dict(flip=2, rotate=3, invert=1, hash=1))
_TOOL = {}


def sna2img_cases():
    if 'T' in _TOOL:
        return _TOOL['T']
    out = []
    for cfg in _tool_contents():
        cid = _cfg_id(cfg)
        for scale in (1, 3):
            fw, fh = _dims_after(cfg['shape'], cfg['rotate'], scale)
            for mask in MASK_TYPES:
                for crop in crops_b(scale, fw, fh)[:4]:
                    p = _udgarray_params(cfg, scale, mask, crop)
                    for oi, o in enumerate(TOOL_OPTS):
                        out.append(('T/udgarray/{}/s{}/m{}/{}/o{}'.format(cid, scale, mask, _crop_id(crop), oi),
                                    dict(kind='sna2img', image=p, opts=o)))
    for step, inc, wm, flip, rotate, mask, crop in itertools.product(
            (1, 2), (0, 1, 255), (0, 1), (0, 1, 2, 3), (0, 1, 2, 3), MASK_TYPES, ((0, 0, None, None), (3, 5, 9, 7))):
        p = dict(type='udg', attr=0x87 if wm else 0x0A, scale=2, step=step, inc=inc, mstep=step if wm else 1, with_mask=wm,
                 g=step + inc, flip=flip, rotate=rotate, mask=mask, tindex=0, alpha=-1, crop=crop)
        out.append(('T/udg/step{}/inc{}/wm{}/f{}r{}/m{}/{}'.format(step, inc, wm, flip, rotate, mask, _crop_id(crop)),
                    dict(kind='sna2img', image=p, opts={})))
    for text, attr, scale, crop, tindex in itertools.product((0, 1), (0x38, 0x87, 0x65), (1, 2), ((0, 0, None, None), (1, 2, 17, 5)), (0, 1)):
        p = dict(type='font', text=text, chars=3, attr=attr, scale=scale, g=attr & 3, tindex=tindex, alpha=0 if tindex else -1, crop=crop)
        out.append(('T/font/t{}/a{:02x}/s{}/{}/ti{}'.format(text, attr, scale, _crop_id(crop), tindex),
                    dict(kind='sna2img', image=p, opts={})))
    for origin, size, scale in itertools.product(((0, 0), (1, 2), (31, 23)), ((32, 24), (2, 3), (1, 1)), (1, 2)):
        for oi, o in enumerate(TOOL_OPTS + (dict(flip=3), dict(rotate=2))):
            p = dict(type='plain', origin=origin, size=size, scale=scale)
            out.append(('T/plain/o{},{}/S{}x{}/s{}/o{}'.format(origin[0], origin[1], size[0], size[1], scale, oi),
                        dict(kind='sna2img', image=p, opts=o)))
        for crop in ((0, 0, None, None), (3, 9, 20, 11)):
            p = dict(type='scr', origin=origin, size=size, scale=scale, crop=crop, tindex=0, alpha=-1)
            out.append(('T/scr/o{},{}/S{}x{}/s{}/{}'.format(origin[0], origin[1], size[0], size[1], scale, _crop_id(crop)),
                        dict(kind='sna2img', image=p, opts={})))
    out = [(cid, case) for cid, case in out if case['image'] is not None and in_domain(case)]
    _TOOL['T'] = out
    return out


def skool2html_cases():
    if 'H' in _TOOL:
        return _TOOL['H']
    out = []
    for png_alpha, animation in ((255, 1), (0, 1), (128, 0)):
        for cfg in _tool_contents():
            cid = _cfg_id(cfg)
            for scale, mask, ci in ((2, 1, 0), (3, 2, 1), (1, 0, 2)):
                fw, fh = _dims_after(cfg['shape'], cfg['rotate'], scale)
                crop = crops_b(scale, fw, fh)[ci]
                p = _udgarray_params(cfg, scale, mask, crop)
                out.append(('H/a{}n{}/udgarray/{}/s{}/m{}/{}'.format(png_alpha, animation, cid, scale, mask, _crop_id(crop)),
                            dict(kind='skool2html', images=[p], png_alpha=png_alpha, animation=animation)))
        # two-frame animations built with #FRAMES (offsets, delays)
        for cfg in _tool_contents():
            if cfg['tindex'] != 'none' and cfg['alpha'] != (-1, 255):
                continue
            for f2 in ('same', 'small', 'shift'):
                for scale, mask, ci in ((2, 1, 0), (1, 2, 1)):
                    fw, fh = _dims_after(cfg['shape'], cfg['rotate'], scale)
                    crop = crops_b(scale, fw, fh)[ci]
                    case = make_case(dict(cfg, frame2=f2), scale, mask, crop)
                    imgs = []
                    for f in case['frames']:
                        imgs.append(dict(type='udgarray', tiles=f['tiles'], scale=f['scale'], flip=f['flip'], rotate=f['rotate'],
                                         mask=f['mask'], tindex=f['tindex'], alpha=f['alpha'], crop=f['crop'],
                                         delay=f['delay'], xo=f['xo'], yo=f['yo']))
                    out.append(('H/a{}n{}/frames/{}/{}/s{}/m{}/{}'.format(png_alpha, animation, _cfg_id(cfg), f2, scale, mask, _crop_id(crop)),
                                dict(kind='skool2html', images=imgs, png_alpha=png_alpha, animation=animation)))
        for wm, flip, rotate in itertools.product((0, 1), (0, 1, 2, 3), (0, 1, 2, 3)):
            p = dict(type='udg', attr=0xD3 if wm else 0x0A, scale=3, step=2, inc=1, mstep=2, with_mask=wm, g=flip, flip=flip,
                     rotate=rotate, mask=1 + (flip & 1), tindex=0, alpha=-1, crop=(0, 0, None, None))
            out.append(('H/a{}n{}/udg/wm{}/f{}r{}'.format(png_alpha, animation, wm, flip, rotate),
                        dict(kind='skool2html', images=[p], png_alpha=png_alpha, animation=animation)))
        for text in (0, 1):
            p = dict(type='font', text=text, chars=3, attr=0x87, scale=2, g=1, tindex=0, alpha=-1, crop=(1, 0, None, 15))
            out.append(('H/a{}n{}/font/t{}'.format(png_alpha, animation, text),
                        dict(kind='skool2html', images=[p], png_alpha=png_alpha, animation=animation)))
        p = dict(type='scr', origin=(1, 2), size=(3, 2), scale=2, crop=(3, 1, 40, None), tindex=0, alpha=-1)
        out.append(('H/a{}n{}/scr'.format(png_alpha, animation), dict(kind='skool2html', images=[p], png_alpha=png_alpha, animation=animation)))
    out = [(cid, case) for cid, case in out if in_domain(case)]
    _TOOL['H'] = out
    return out


T_CHUNK = 120
H_CHUNK = 40


# --------------------------------------------------------------------------- enumeration
def _cfg_id(cfg):
    parts = []
    for k in DEFAULTS:
        if cfg[k] != DEFAULTS[k]:
            v = cfg[k]
            if isinstance(v, tuple):
                v = '.'.join(str(e) for e in v)
            parts.append('{}={}'.format(k, v))
    return ','.join(parts) or 'default'


def _crop_id(crop):
    return 'x{},y{},w{},h{}'.format(*('-' if v is None else v for v in crop))


def depth(tier):
    return 3 if tier == 'quick' else 4


def base_indices(tier, seed):
    if tier == 'quick':
        return [(4 * seed + k) % len(BASES) for k in range(4)]
    return list(range(len(BASES)))


# ---- K: complete attribute-byte sweep
# graphic rows with INK and PAPER pixels in every row pair, asymmetric; mask rows that give
# ink, paper and transparent pixels under both mask types
K_DATA = (0x0F, 0xA5, 0x81, 0xF0, 0x33, 0xFF, 0x00, 0x5A)
K_MASK = (0xF0, 0xF0, 0xFF, 0x0F, 0x55, 0x3C, 0x81, 0xA5)
K_MASKS = ((0, False), (1, True), (2, True))          # (mask type, tiles carry mask bytes)
K_PARTS = ('cell', 'pair40', 'pair80', 'pairC0', 'table')


def _k_tile(attr, i, masked):
    data = K_DATA[i % 8:] + K_DATA[:i % 8]
    mask = (K_MASK[i % 8:] + K_MASK[:i % 8]) if masked else None
    return (attr, data, mask)


def _k_case(tiles, scale, mask, crop, anim):
    return dict(kind='seam', png_alpha=255, animation=anim, frames=[dict(
        tiles=tiles, shared=0, flip=0, rotate=0, scale=scale, mask=mask, crop=crop, delay=32, tindex=0, alpha=-1, xo=0, yo=0)])


def attr_cases(part, mvar):
    """Every attribute byte 0..255, each x scale {1,2} x PNGEnableAnimation {1,0} x
    {no crop, unaligned crop}, for the mask variant K_MASKS[mvar]:
      cell    one cell showing INK and PAPER (and transparent) pixels;
      pairXX  two neighbouring cells whose attributes differ exactly in the bits XX
              (BRIGHT, FLASH, both): the palette is shared between the two;
      table   all 256 attributes in one 16x16 array (4-bit paths), in four row orders so
              that every attribute also appears in the first and in the last row/column."""
    mtype, masked = K_MASKS[mvar]
    if part == 'table':
        for order in range(4):
            rows = []
            for j in range(16):
                row = []
                for c in range(16):
                    i = 16 * j + c
                    a = (i, 255 - i, (i * 16 + i // 16) & 255, (i * 7 + 3) & 255)[order]
                    row.append(_k_tile(a, i, masked))
                rows.append(tuple(row))
            tiles = tuple(rows)
            for scale in (1, 2):
                for anim in (1, 0):
                    for crop in ((0, 0, None, None), (3, 5, 128 * scale - 7, 128 * scale - 6)):
                        yield 'K/table{}/m{}/s{}/anim{}/{}'.format(order, mtype, scale, anim, _crop_id(crop)), \
                            _k_case(tiles, scale, mtype, crop, anim)
        return
    toggle = 0 if part == 'cell' else int(part[4:], 16)
    for attr in range(256):
        if toggle:
            tiles = ((_k_tile(attr, 0, masked), _k_tile(attr ^ toggle, 3, masked)),)
        else:
            tiles = ((_k_tile(attr, 0, masked),),)
        for scale in (1, 2):
            for anim in (1, 0):
                for crop in ((0, 0, None, None), (1, 1, None, None)):
                    yield 'K/{}/attr{:02X}/m{}/s{}/anim{}/{}'.format(part, attr, mtype, scale, anim, _crop_id(crop)), \
                        _k_case(tiles, scale, mtype, crop, anim)


def units(tier, seed):
    """The whole space as an ordered stream of work units (simplest first)."""
    # K: the attribute byte is a finite table - all 256 values are swept completely
    for part in K_PARTS:
        for mvar in range(len(K_MASKS)):
            yield ('K', part, mvar)
    for _, cfg in core.deviations(DEFAULTS, alternatives(tier), depth(tier)):
        yield ('B', cfg)
    for b in base_indices(tier, seed):
        for scale in SCALES:
            for mask in MASK_TYPES:
                yield ('A', b, scale, mask)
    # F: every byte value 0..255 as graphic data (and as mask data) under all 16 flip/rotate
    # settings x 3 mask types x {no crop, unaligned crop} - the byte-level tables (bit
    # reversal for flips, per-byte pixel expansion) are finite and are swept completely
    for flip in range(4):
        for rotate in range(4):
            yield ('F', flip, rotate)
    for k in range(0, len(sna2img_cases()), T_CHUNK):
        yield ('T', k)
    hc = skool2html_cases()
    k = 0
    while k < len(hc):
        # a batch shares one ref file: same PNGAlpha / PNGEnableAnimation
        j = k
        while j < len(hc) and j - k < H_CHUNK and (hc[j][1]['png_alpha'], hc[j][1]['animation']) == (hc[k][1]['png_alpha'], hc[k][1]['animation']):
            j += 1
        yield ('H', k, j)
        k = j


def unit_cases(unit):
    """(case_id, case) of one unit, in a fixed order."""
    if unit[0] == 'B':
        cfg = unit[1]
        cid = _cfg_id(cfg)
        tiles = make_tiles(cfg)
        for scale in SCALES:
            fw, fh = _dims_after(cfg['shape'], cfg['rotate'], scale)
            for mask in MASK_TYPES:
                for crop in crops_b(scale, fw, fh):
                    case = make_case(cfg, scale, mask, crop, tiles)
                    if case is not None:
                        yield 'B/{}/s{}/m{}/{}'.format(cid, scale, mask, _crop_id(crop)), case
    elif unit[0] == 'A':
        _, b, scale, mask = unit
        cfg = dict(DEFAULTS, **BASES[b])
        fw, fh = _dims_after(cfg['shape'], cfg['rotate'], scale)
        tiles = make_tiles(cfg)
        for crop in crops_a(scale, fw, fh):
            case = make_case(cfg, scale, mask, crop, tiles)
            if case is not None:
                yield 'A/base{}/s{}/m{}/{}'.format(b, scale, mask, _crop_id(crop)), case
    elif unit[0] == 'K':
        for item in attr_cases(unit[1], unit[2]):
            yield item
    elif unit[0] == 'F':
        _, flip, rotate = unit
        cfg = dict(DEFAULTS, shape=(8, 4), flip=flip, rotate=rotate)
        for masked in (0, 1):
            rows = []
            for j in range(4):
                row = []
                for c in range(8):
                    i = j * 8 + c
                    data = tuple(range(8 * i, 8 * i + 8))
                    mask = tuple((v * 7 + 3) & 0xFF for v in data) if masked else None
                    row.append((ATTRS[i % len(ATTRS)] if masked else ATTRS[0], data, mask))
                rows.append(tuple(row))
            tiles = tuple(rows)
            for scale in (1, 2):
                fw, fh = _dims_after(cfg['shape'], rotate, scale)
                for mask in (MASK_TYPES if masked else MASK_TYPES[:1]):
                    for crop in ((0, 0, None, None), (3, 5, fw - 7, fh - 6)):
                        case = make_case(cfg, scale, mask, crop, tiles)
                        if case is not None:
                            yield 'F/bytes/flip{}/rot{}/masked{}/s{}/m{}/{}'.format(flip, rotate, masked, scale, mask, _crop_id(crop)), case
    elif unit[0] == 'T':
        for item in sna2img_cases()[unit[1]:unit[1] + T_CHUNK]:
            yield item
    elif unit[0] == 'H':
        for item in skool2html_cases()[unit[1]:unit[2]]:
            yield item


def _tags(case, detail):
    """What known_findings.json matchers can look at."""
    cls = detail[1:detail.index(']')] if detail.startswith('[') else ''
    tags = {'kind': case.get('kind'), 'class': cls, 'detail': detail}
    try:
        exp = expect_of(case)
        f = exp['frames'][0]
        tags.update(scale=f['scale'], mask=f['mask'], flip=f['flip'], rotate=f['rotate'], nframes=len(exp['frames']),
                    animation=exp['animation'])
        if len(exp['frames']) == 1 and exp['animation']:
            # geometry of the expected flash rectangle relative to the crop origin
            r = Ctx.source(_TagCtx, f).render(f['scale'], f['crop'], f['mask'])
            tags['flash_expected'] = r.flash_rect is not None
            tags['crop_origin_beyond_size'] = bool(r.flash_rect is not None and
                                                   (f['crop'][0] > r.width or f['crop'][1] > r.height))
    except Exception:
        pass
    return tags


class _TagCtx:
    sources = {}


def check_case(case, cx=None, stats=None):
    kind = case.get('kind')
    if kind == 'seam':
        return check_seam(case, cx, stats)
    if kind == 'sna2img':
        return check_sna2img(case, cx, stats)
    if kind == 'skool2html':
        return check_skool2html(case, cx, stats)
    raise ValueError('unknown case kind {!r}'.format(kind))


def _shard(shard, nshards, tier, seed):
    stats = core.Stats(PROPERTY)
    cx = ctx()
    for ui, unit in core.shard_iter(units(tier, seed), shard, nshards):
        cases = list(unit_cases(unit)) if unit[0] in 'TH' else unit_cases(unit)
        batch = None
        if unit[0] == 'H':
            batch = run_skool2html([c for _, c in cases], stats)
        for ci, (case_id, case) in enumerate(cases):
            stats.evaluations += 1
            if unit[0] == 'K':
                stats.counters['attr_sweep_' + ('table' if unit[1] == 'table' else 'cell' if unit[1] == 'cell' else 'pair')] += 1
            if batch is not None and batch[ci][1] is None:
                errors = check_skool2html(case, cx, stats, batch[ci][0])
            else:
                errors = check_case(case, cx, stats)        # (a failed batch is re-run image by image)
            for detail in errors[:2]:
                stats.violation(case_id, case, detail, tags=_tags(case, detail), order=ui * 100000 + ci)
            if ci == 0 and ui % 1009 == 0 or (unit[0] in 'TH' and ci == 0 and ui % 7 == 0):
                stats.sample({'case_id': case_id, 'ok': not errors})
    return stats


def run(tier, seed):
    from ..skbuild import BrokenCheck
    problems = png.selftest()
    if problems:
        raise BrokenCheck('reference PNG decoder self-test failed: {}'.format(problems[:3]))
    # load every module under test now, so that all forked workers see the working tree as
    # it is at this instant
    import skoolkit.image, skoolkit.graphics, skoolkit.pngwriter, skoolkit.sna2img, skoolkit.skool2html  # noqa: F401,E401
    stats = core.run_shards(_shard, tier, seed, prop=PROPERTY)
    stats.traces = stats.evaluations
    d = depth(tier)
    alt = alternatives(tier)
    nB = sum(1 for u in units(tier, seed) if u[0] == 'B')
    meta = dict(
        rule='every case = one image written by the real code, decoded by mc/refs/png.py (full structural validation) and compared '
             'RGBA-exactly, every pixel of every frame, with mc/refs/pixels.py; specialised-encoder cases are written again with '
             'every dispatch slot forced to _build_image_data_bd_any and must decode to identical pixels. states = distinct '
             '(encoder sequence, bit depth, palette size, tRNS?, frames, width, height) outcomes; non-trivial = classes of cases '
             'that use a specialised encoder, transparency, animation or a flip/rotate (keyed by encoder, depth, palette, crop '
             'alignment, transform, mask type, scale)',
        exhaustive=True,
        bound='K: all 256 attribute bytes x {{cell, BRIGHT pair, FLASH pair, BRIGHT+FLASH pair, 16x16 table in 4 orders}} x scale {{1,2}} x animation {{1,0}} x 2 crops x 3 mask variants; B: all {} content configurations within {} deviations of the default (dimensions: {}), each x scale 1..8 x mask type '
              '0..2 x {} crop rectangles (full product); A: bases {} x FULL PRODUCT scale 1..8 x mask 0..2 x crop x,y in '
              '{{0,1,7,8,9,8s-1,8s,8s+1}} x width,height in {{default,1,2,7,8,9,full-1}}; T: {} sna2img.main runs; H: {} images in '
              'skool2html runs (d<=1 contents)'.format(
                  nB, d, ', '.join('{}[{}]'.format(k, 1 + len(v)) for k, v in alt.items()), len(crops_b(2, 32, 16)),
                  base_indices(tier, seed), len(sna2img_cases()), len(skool2html_cases())),
        assumptions=ASSUMPTIONS,
        required_guards=REQUIRED_GUARDS,
        extra={'geometry_bases': base_indices(tier, seed), 'deviation_depth': d},
    )
    return stats, meta


ASSUMPTIONS = [
    'reference models mc/refs/png.py (PNG/APNG specifications) and mc/refs/pixels.py (Spectrum display rules, documented mask '
    'truth tables, [Colours] defaults, Palette/tindex/alpha rules of skool-macros.rst) are the oracle',
    'a tile without mask bytes drawn with mask type 1 or 2 behaves as if its mask equalled its graphic bytes (macro convention, '
    'DESIGN C15 note)',
    'flip is applied before rotate (the order used by the macros and by sna2img; at the seam the check itself calls flip_udgs '
    'then rotate_udgs)',
    'a crop rectangle reaching beyond the constructed image is clipped to it; rectangles whose origin is outside the image '
    '(empty result, behaviour undocumented) are excluded from the space; width/height 0 or omitted = default',
    'tile arrays are rectangular (ragged arrays cannot be produced by the macros: #UDGARRAY pads the last row)',
    'tindex applies to every frame of an animation and only when no frame has mask-produced transparent bits; tindex/alpha of '
    'later frames are ignored (documented); tindex within 0-15, alpha within -1..255',
    'a flash rectangle larger than the visible flashing cells is not a violation (the frame is still confined to the reported '
    'rectangle and pixel-exact); it is counted in guards as info_flash_rect_larger_than_visible_flashing_cells',
    'in the deviation and geometry sweeps (A, B) the attribute alphabet = the design alphabet plus 0x0A, 0x65, 0xD3 (needed to obtain more than four colours) and 0x92 (FLASH with ink = paper); the quick tier uses 7 of the 9 graphic schemes and 5 of the 7 mask schemes',
    'default colours only ([Colours] overrides are not enumerated); PNGCompressionLevel left at its default',
    'frame delays are checked as exact fractions delay/100 s; num_plays and the disposal/blend operations are only required to '
    'be valid and to show the frame pixels as given',
]


def replay(case):
    return check_case(normalise_case(case), Ctx())
