SPECIFICATION Spec
CONSTANT Values = {0, 1, 2, 5, 7, 8, 16, 23, 32, 39, 48, 55, 64, 128, 200, 255}
INVARIANT TypeOK
PROPERTY LockSticky
PROPERTY UndecodedIgnored
PROPERTY AcceptedDetermines
