------------------------------ MODULE Paging128 ------------------------------
(* The 128K Spectrum memory-paging latch (port 0x7FFD), as documented:
   - the port is decoded by A15 = 0 and A1 = 0 only;
   - bits 0-2 of the written value select the RAM bank at 0xC000, bit 4 the ROM
     at 0x0000, bit 5 locks the latch until reset;
   - banks 5 and 2 are permanently mapped at 0x4000 and 0x8000.
   The model keeps the last action in the state (TLC's dumped action labels carry
   no parameter values), so that every edge of the state graph can be replayed
   against the implementation by the conformance driver (mc/props/c08.py). *)
EXTENDS Naturals

CONSTANT Values          \* representative written values (subset of 0..255)

VARIABLES bank, rom, lock, act

vars == <<bank, rom, lock, act>>

Bit(v, n) == (v \div (2 ^ n)) % 2

Init == /\ bank = 0
        /\ rom = 0
        /\ lock = FALSE
        /\ act = <<FALSE, 0>>

Out(decoded, v) ==
    /\ act' = <<decoded, v>>
    /\ IF decoded /\ ~lock
          THEN /\ bank' = v % 8
               /\ rom' = Bit(v, 4)
               /\ lock' = (Bit(v, 5) = 1)
          ELSE UNCHANGED <<bank, rom, lock>>

Next == \E d \in BOOLEAN, v \in Values : Out(d, v)

Spec == Init /\ [][Next]_vars

TypeOK == /\ bank \in 0..7
          /\ rom \in 0..1
          /\ lock \in BOOLEAN

(* Once bit 5 has been set no later write changes the mapping. *)
LockSticky == [][lock => (lock' /\ bank' = bank /\ rom' = rom)]_vars

(* A write that is not decoded never changes the mapping. *)
UndecodedIgnored == [][(~act'[1]) => (bank' = bank /\ rom' = rom /\ lock' = lock)]_vars

(* An accepted write determines the mapping completely (function of the value). *)
AcceptedDetermines ==
    [][(act'[1] /\ ~lock) => (bank' = act'[2] % 8 /\ rom' = Bit(act'[2], 4))]_vars
=============================================================================
